#!/venv/bin/python
"""Regenerates MANIFEST.json from vf/manifest_data.py (kept as data so that the file is always valid)."""
import json, os, sys
sys.path.insert(0, os.path.dirname(os.path.abspath(__file__)))
from vf import manifest_data as M
json.dump(M.manifest(), open(os.path.join(os.path.dirname(os.path.abspath(__file__)), 'MANIFEST.json'), 'w'), indent=1)
print('MANIFEST.json written:', len(M.manifest()['checks']), 'checks,', len(M.manifest()['not_applicable']), 'not applicable')
