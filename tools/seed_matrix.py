#!/venv/bin/python
"""
tools/seed_matrix.py [name-prefix ...]
Detection regression: for every seeded change under /verif/seeded (or those whose directory name starts with a given prefix), apply its
patch to a scratch worktree of /repo (never /repo itself), run the quick checks recorded for it with VF_REPO pointing there, and record
which violation keys fire in /verif/seeded/MATRIX.json. Exit 1 if a seed that was caught before is no longer caught.
"""
import glob, json, os, shutil, subprocess, sys, tempfile

want = sys.argv[1:]
mp = '/verif/seeded/MATRIX.json'
matrix = json.load(open(mp)) if os.path.exists(mp) else {}
rc = 0
for d in sorted(glob.glob('/verif/seeded/*/')):
    name = os.path.basename(d.rstrip('/'))
    if want and not any(name.startswith(w) for w in want):
        continue
    if not os.path.exists(os.path.join(d, 'meta.json')):
        continue        # e.g. seeded/hand: hand-made mutation patches, run through tools/mut.sh
    meta = json.load(open(os.path.join(d, 'meta.json')))
    ids = meta.get('matrix_checks') or [c for c, v in meta.get('checks', {}).items() if v.get('exit') == 1] or [meta['property']]
    wt = tempfile.mkdtemp(prefix='vf-mx-', dir='/var/tmp'); os.rmdir(wt)
    out = tempfile.mkdtemp(prefix='vf-mx-out-', dir='/var/tmp')
    subprocess.run(['git', '-C', '/repo', 'worktree', 'add', '-q', '--detach', wt, 'HEAD'], check=True)
    try:
        ap = subprocess.run(['git', '-C', wt, 'apply', os.path.join(d, 'patch.diff')], capture_output=True, text=True)
        rec = {'repo_head': subprocess.run(['git', '-C', '/repo', 'rev-parse', '--short', 'HEAD'], capture_output=True, text=True).stdout.strip(),
               'patch_applies': ap.returncode == 0, 'checks': {}}
        if ap.returncode == 0:
            for c in ids:
                e = dict(os.environ, VF_REPO=wt, VF_OUT=out, VF_BUDGET='900')
                p = subprocess.run(['/verif/bin/check', c, '--tier', 'quick'], capture_output=True, text=True, env=e, timeout=3600)
                keys = [l.strip().split(' ')[0][4:] for l in p.stdout.splitlines() if l.strip().startswith('key=')]
                rec['checks'][c] = {'exit': p.returncode, 'violation_keys': keys[:10]}
        caught = any(v['exit'] == 1 and v['violation_keys'] for v in rec['checks'].values())
        rec['caught'] = caught
        if not caught:
            rc = 1
        matrix[name] = rec
        print(name, 'CAUGHT' if caught else 'MISSED', {c: v['violation_keys'][:3] for c, v in rec['checks'].items()}, flush=True)
    finally:
        subprocess.run(['git', '-C', '/repo', 'worktree', 'remove', '--force', wt])
        shutil.rmtree(out, ignore_errors=True)
    json.dump(matrix, open(mp, 'w'), indent=1, sort_keys=True)
sys.exit(rc)
