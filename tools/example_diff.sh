#!/bin/bash
# run every shipped example with the pinned tree and with HEAD; diff reports modulo clock lines
set -u
OLD=/var/tmp/vf-old-wt
git -C /repo worktree add -q --detach $OLD 9d4f542
mkdir -p /var/tmp/vf-exd/old /var/tmp/vf-exd/new
run() { # $1 tree $2 example $3 outdir
  d=$(mktemp -d /var/tmp/vf-exd/run-XXXX)
  cp "$1/tests/examples/$2.txt" $d/in.txt
  (cd $d && OMP_NUM_THREADS=1 OPENBLAS_NUM_THREADS=1 PYTHONPATH=$1/src timeout 900 /venv/bin/python -m geophires_x in.txt out.out >/dev/null 2>&1; echo "rc=$?" > $3/$2.rc)
  [ -f $d/out.out ] && grep -v "Calculation Time\|Simulation Date\|Simulation Time\|GEOPHIRES Version" $d/out.out > $3/$2.out
  rm -rf $d
}
export -f run
ls /repo/tests/examples/*.txt | xargs -n1 basename | sed 's/\.txt$//' | grep -v "^MC_" > /var/tmp/vf-exd/list
cat /var/tmp/vf-exd/list | xargs -P 8 -I{} bash -c "run $OLD {} /var/tmp/vf-exd/old"
cat /var/tmp/vf-exd/list | xargs -P 8 -I{} bash -c "run /repo {} /var/tmp/vf-exd/new"
for e in $(cat /var/tmp/vf-exd/list); do
  a=/var/tmp/vf-exd/old/$e; b=/var/tmp/vf-exd/new/$e
  if [ "$(cat $a.rc)" != "$(cat $b.rc)" ]; then echo "$e: exit status $(cat $a.rc) -> $(cat $b.rc)"; fi
  if [ -f $a.out ] && [ -f $b.out ]; then n=$(diff $a.out $b.out | grep -c '^[<>]'); [ "$n" != "0" ] && { echo "$e: $n differing lines"; diff $a.out $b.out | head -6; }; fi
done
echo "examples: $(wc -l < /var/tmp/vf-exd/list), reports old: $(ls /var/tmp/vf-exd/old/*.out | wc -l), new: $(ls /var/tmp/vf-exd/new/*.out | wc -l)"
git -C /repo worktree remove --force $OLD
rm -rf /var/tmp/vf-exd
