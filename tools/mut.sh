#!/bin/bash
# tools/mut.sh <patch.diff> <check-id> [<check-id> ...]
# Applies a patch to a scratch worktree of /repo (never to /repo itself), runs the named quick checks against it
# with evidence/replays redirected to a scratch directory, prints the verdict lines and removes everything.
set -u
patch="$(readlink -f "$1")"; shift
wt="/var/tmp/vf-mut-$$"
out="/var/tmp/vf-mut-out-$$"
git -C /repo worktree add -q --detach "$wt" HEAD || exit 2
trap 'git -C /repo worktree remove --force "$wt" >/dev/null 2>&1; rm -rf "$out"' EXIT
if ! git -C "$wt" apply "$patch"; then echo "PATCH-DOES-NOT-APPLY $patch"; exit 2; fi
rc=0
for id in "$@"; do
  echo "== $id on $(basename "$(dirname "$patch")")/$(basename "$patch")"
  VF_REPO="$wt" VF_OUT="$out" VF_BUDGET="${VF_BUDGET:-600}" /verif/bin/check "$id" --tier "${TIER:-quick}" 2>&1 | grep -E "^(VIOLATION|KNOWN-FINDING|property=|INFRA)|key=" | cut -c1-400 | head -${LINES_MAX:-12}
done
