#!/venv/bin/python
"""
tools/seed_verify.py <seed-dir-name> <property> <src-of-agent-output> [check ids...]
Confirms a sub-agent's seeded change in a scratch worktree (never in /repo): the patch applies, the demonstration
passes without it and fails with it, the pinned baseline tests still pass with it; then runs the named quick checks
against the patched worktree. Writes /verif/seeded/<name>/{patch.diff,demo.py,notes.md,meta.json}.
"""
import json, os, shutil, subprocess, sys, tempfile, time
import xml.etree.ElementTree as ET

name, prop, src = sys.argv[1:4]
checks = sys.argv[4:] or [prop]
dst = f'/verif/seeded/{name}'
os.makedirs(dst, exist_ok=True)
for f in ('patch.diff', 'demo.py', 'notes.md'):
    if os.path.exists(os.path.join(src, f)):
        shutil.copy(os.path.join(src, f), os.path.join(dst, f))
wt = tempfile.mkdtemp(prefix='vf-seed-', dir='/var/tmp')
os.rmdir(wt)
subprocess.run(['git', '-C', '/repo', 'worktree', 'add', '-q', '--detach', wt, os.environ.get('SEED_BASE', 'HEAD')], check=True)     # SEED_BASE: the commit the agent worked on
meta = {'property': prop, 'name': name, 'seed_base': os.environ.get('SEED_BASE', 'HEAD'), 'repo_head': subprocess.run(['git', '-C', '/repo', 'rev-parse', '--short', 'HEAD'], capture_output=True, text=True).stdout.strip()}
env = dict(os.environ, PYTHONPATH=f'{wt}/src', PYTHONHASHSEED='0', MPLBACKEND='Agg')
env.pop('GEOPHIRES_X_VERIF', None)


def demo():
    # run from <worktree>/SEED/demo.py, where the agent wrote it (demos may locate files relative to themselves)
    os.makedirs(os.path.join(wt, 'SEED'), exist_ok=True)
    shutil.copy(os.path.join(dst, 'demo.py'), os.path.join(wt, 'SEED', 'demo.py'))
    p = subprocess.run(['/venv/bin/python', os.path.join(wt, 'SEED', 'demo.py')], cwd=wt, env=env, capture_output=True, text=True, timeout=1800)
    return p.returncode, (p.stdout + p.stderr)[-600:]


try:
    # the agent wrote demo.py with its own worktree path baked in; retarget to this scratch copy
    s = open(os.path.join(dst, 'demo.py')).read()
    agent_wt = os.path.dirname(src.rstrip('/'))
    meta['demo_retargeted'] = agent_wt in s
    open(os.path.join(dst, 'demo.py'), 'w').write(s.replace(agent_wt, wt))
    rc0, out0 = demo()
    ap = subprocess.run(['git', '-C', wt, 'apply', os.path.join(dst, 'patch.diff')], capture_output=True, text=True)
    meta['patch_applies'] = ap.returncode == 0
    if ap.returncode != 0:
        meta['apply_err'] = ap.stderr[-400:]
    rc1, out1 = demo()
    meta['demo_unchanged_rc'], meta['demo_patched_rc'] = rc0, rc1
    meta['demo_patched_tail'] = out1[-400:]
    # baseline tests with the patch
    base = json.load(open('/root/.vp/BASELINE.json'))
    junit = f'{wt}/junit.xml'
    t = time.time()
    subprocess.run(['/venv/bin/python', '-m', 'pytest', '-ra', '-q', '-p', 'no:cacheprovider', '--timeout=900',
                    '--continue-on-collection-errors', f'--junitxml={junit}'], cwd=wt, env=env, capture_output=True, text=True, timeout=3600)
    passed = set()
    for tc in ET.parse(junit).getroot().iter('testcase'):
        if not any(ch.tag in ('failure', 'error', 'skipped') for ch in tc):
            passed.add(f"{tc.get('classname')}::{tc.get('name')}")
    missing = [x for x in base['stable_pass'] if x not in passed]
    meta['baseline_with_patch'] = {'stable_pass_expected': len(base['stable_pass']), 'missing': missing, 'wall_s': round(time.time() - t)}
    # retarget the stored demo back to a neutral placeholder
    s = open(os.path.join(dst, 'demo.py')).read()
    open(os.path.join(dst, 'demo.py'), 'w').write(s.replace(wt, '/tmp/seed-worktree'))
    # my checks against the patched worktree
    out = tempfile.mkdtemp(prefix='vf-seed-out-', dir='/var/tmp')
    meta['checks'] = {}
    for c in checks:
        e2 = dict(os.environ, VF_REPO=wt, VF_OUT=out, VF_BUDGET='900')
        p = subprocess.run(['/verif/bin/check', c, '--tier', 'quick'], capture_output=True, text=True, env=e2, timeout=3000)
        lines = [l for l in p.stdout.splitlines() if l.startswith(('VIOLATION', 'KNOWN-FINDING', 'property=')) or l.strip().startswith('key=')]
        meta['checks'][c] = {'exit': p.returncode, 'violations': sum(1 for l in lines if l.startswith('VIOLATION')),
                             'violation_keys': [l.strip()[:300] for l in lines if l.strip().startswith('key=')][:8],
                             'first': [l[:300] for l in lines if not l.startswith('KNOWN-FINDING')][:4]}
    shutil.rmtree(out, ignore_errors=True)
finally:
    subprocess.run(['git', '-C', '/repo', 'worktree', 'remove', '--force', wt])
meta['what_ran'] = 'tools/seed_verify.py: demo before/after patch in a scratch worktree, pinned pytest baseline with patch, quick checks with VF_REPO=<patched worktree>'
json.dump(meta, open(os.path.join(dst, 'meta.json'), 'w'), indent=1)
ok = meta.get('patch_applies') and meta['demo_unchanged_rc'] == 0 and meta['demo_patched_rc'] != 0 and not meta['baseline_with_patch']['missing']
print(json.dumps({k: meta[k] for k in ('patch_applies', 'demo_unchanged_rc', 'demo_patched_rc')}), 'baseline_missing=', meta['baseline_with_patch']['missing'][:3], 'CONFIRMED' if ok else 'NOT-CONFIRMED')
for c, v in meta['checks'].items():
    print(' ', c, 'exit', v['exit'], 'violations', v['violations'], (v['violation_keys'] or v['first'] or [''])[0][:200])
