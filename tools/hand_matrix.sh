#!/bin/bash
# tools/hand_matrix.sh : re-run every hand-made mutation under seeded/hand (name cNN_<what>.diff) against its property's quick check
cd "$(dirname "$0")/.."
for p in seeded/hand/*.diff; do
  id=$(basename "$p" | cut -c1-3 | tr 'c' 'C')
  out=$(LINES_MAX=400 tools/mut.sh "$p" "$id" 2>&1)
  if echo "$out" | grep -q "PATCH-DOES-NOT-APPLY"; then echo "$(basename $p) $id DOES-NOT-APPLY"; continue; fi
  n=$(echo "$out" | grep -c '^VIOLATION')
  echo "$(basename $p) $id violations=$n $(echo "$out" | grep 'key=' | head -1 | cut -c1-120)"
done
