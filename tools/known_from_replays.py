#!/venv/bin/python
"""
tools/known_from_replays.py <property> "<what: description of the defect class>" [key-prefix]
Developer tool (never run by a check): after a human has triaged the violations of the last run of <property> as genuine instances of one
already-documented defect class, append one open known-finding entry per replay file under replays/<property>/ (key = the violation key,
what = "<what>; fails for: <message>"). Entries already present are skipped.
"""
import glob, json, sys
pid, what = sys.argv[1], sys.argv[2]
prefix = sys.argv[3] if len(sys.argv) > 3 else ''
k = json.load(open('/verif/known_findings.json'))
have = {(f['property'], f['key']) for f in k['findings']}
n = 0
for f in sorted(glob.glob(f'/verif/replays/{pid}/*.json')):
    r = json.load(open(f))
    if not r['key'].startswith(prefix) or (pid, r['key']) in have:
        continue
    k['findings'].append({'property': pid, 'key': r['key'], 'status': 'open', 'what': f'{what}; fails for: {r["msg"]}'})
    have.add((pid, r['key']))
    n += 1
json.dump(k, open('/verif/known_findings.json', 'w'), indent=1)
print(f'{n} entries added')
