#!/venv/bin/python
"""
tools/seed_prompts.py <out-dir> <id>[:focus files ...] ...
Writes the prompt given to an independent sub-agent that seeds a property-breaking change in its own scratch worktree <out-dir>/<id>
(created here from /repo HEAD). The agent sees the property text only (title, statement, quantifier and - optionally - a subset of the
property's own anchor files as a focus), nothing from /verif.
"""
import json, os, subprocess, sys

T = """You are helping test a verification effort for the open-source project NREL/GEOPHIRES-X (a Python geothermal techno-economic simulator). You have your own scratch git worktree of the repository at {wt} (python interpreter: /venv/bin/python; to make Python import YOUR worktree rather than the installed copy, always run with the environment variable PYTHONPATH={wt}/src, and check with `python -c "import geophires_x,sys;print(geophires_x.__file__)"`). Work ONLY inside {wt}. Do NOT read, list or use anything under /verif or /repo (they are off limits; your work must be independent of them). Do NOT use `git stash` (the stash is shared with other worktrees); to compare with the unchanged code use `git diff`, `git apply -R` or a copy of the file. There is no network.

The property that must hold for GEOPHIRES-X:

  TITLE: {title}
  STATEMENT: {statement}
  QUANTIFIED OVER: {quant}
{focus}
YOUR TASK: produce ONE realistic change (a small source patch, the kind of slip a maintainer could plausibly commit) to the code under {wt}/src that BREAKS this property while (a) the code still imports/compiles and (b) the repository's existing test suite still passes exactly as before. The change should need something specific to manifest - a particular configuration/branch, a particular interleaving or assignment of work to processes, a fault at a particular point, a multi-step sequence of operations, an unusual-but-legal input, a boundary value, or two cooperating edits that each look fine alone - NOT something that any ordinary run would expose at once, and not a plain crash. Prefer a change different from the most obvious one; subtle index/branch/unit/flag/ordering/caching slips are ideal. Keep the patch small (typically 1-10 changed lines).

How to run the existing tests (takes ~1 minute; 148-149 tests pass, 6-8 known failures and 4 collection errors are normal and must be IDENTICAL with and without your change):
  cd {wt} && PYTHONPATH={wt}/src /venv/bin/python -m pytest -q -p no:cacheprovider --timeout=900 --continue-on-collection-errors -rA 2>&1 | tail -200
(run it once BEFORE changing anything to get the baseline list of passing tests, then again after; compare the sets of passed/failed test ids). Tests write stray files (e.g. `-q`, `-p`, HDR.out); ignore them.

Deliverables, all inside {wt}/SEED/ :
  1. patch.diff   - output of `git -C {wt} diff -- src` for your change (only files under src/).
  2. demo.py      - a small standalone program that exercises the software through its public entry points (e.g. geophires_x_client.GeophiresXClient with GeophiresInputParameters, geophires_monte_carlo, the command line `python -m geophires_x`, the schema generator, hip_ra_x - whatever the property is about) and exits 0 when the property holds and exits 1 (printing what went wrong) when your change is applied. It must PASS (exit 0) on the unchanged code and FAIL (exit 1) with your patch, deterministically (run it 3 times each way). It must compute its expectation independently (from the property statement), not by comparing against numbers recorded from the unchanged code. Locate files relative to the demo's own location ({wt}/SEED/demo.py) or via absolute paths inside {wt}. Run it as: PYTHONPATH={wt}/src /venv/bin/python {wt}/SEED/demo.py
  3. notes.md     - which property clause is broken, what exactly is needed for the breakage to manifest (configuration / input / sequence / schedule), and the evidence: test-suite result before and after (counts and that the pass/fail sets are identical), demo exit codes before and after.
Leave the worktree WITH your patch applied at the end (so `git diff` shows it). Verify everything yourself before finishing. Your final message should summarise the change in 5-10 lines."""

out = sys.argv[1]
props = {json.loads(l)['id']: json.loads(l) for l in open('/verif/properties.jsonl')}
os.makedirs(out, exist_ok=True)
for a in sys.argv[2:]:
    pid, _, focus = a.partition(':')
    p = props[pid]
    wt = os.path.join(out, pid)
    if not os.path.isdir(wt):
        subprocess.run(['git', '-C', '/repo', 'worktree', 'add', '-q', '--detach', wt, 'HEAD'], check=True)
    ftxt = ''
    if focus:
        files = [f for f in p['anchors']['files'] if any(x in f for x in focus.split(','))]
        ftxt = '\n  FOCUS: put your change in (one of) these files, which implement part of the property: ' + ', '.join(files) + '\n'
    open(os.path.join(out, pid + '.prompt'), 'w').write(T.format(wt=wt, title=p['title'], statement=p['statement'], quant=p['quantifier']['text'], focus=ftxt))
    print(pid, ftxt.strip()[:200])
