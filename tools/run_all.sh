#!/bin/bash
# tools/run_all.sh [tier] : every registered check once; one summary line each
tier="${1:-quick}"
cd "$(dirname "$0")/.."
for id in $(/venv/bin/python -c "import json;print(' '.join(c['property_id'] for c in json.load(open('MANIFEST.json'))['checks']))"); do
  start=$(date +%s)
  out=$(bin/check $id --tier $tier 2>&1); rc=$?
  end=$(date +%s)
  echo "$id rc=$rc $((end-start))s $(echo "$out" | grep '^property=' | cut -c1-220) viol_lines=$(echo "$out" | grep -c '^VIOLATION') infra=$(echo "$out" | grep -c 'INFRASTRUCTURE')"
done
