#!/venv/bin/python
"""tools/cover_report.py <cover-dir> [file-substring ...]: merge VF_COVER output; per file executable/hit lines; list unreached ranges for the named files."""
import glob, os, sys

d = sys.argv[1]
want = sys.argv[2:]
repo = os.environ.get('VF_REPO', '/repo') + '/src/'
hits = {}
for fn in glob.glob(os.path.join(d, '*.txt')):
    for l in open(fn):
        f, _, n = l.strip().rpartition(':')
        hits.setdefault(f, set()).add(int(n))


def exec_lines(path):
    out = set()
    def walk(co):
        for _, _, ln in co.co_lines():
            if ln:
                out.add(ln)
        for c in co.co_consts:
            if hasattr(c, 'co_lines'):
                walk(c)
    with open(path, encoding='UTF-8') as f:
        walk(compile(f.read(), path, 'exec'))
    return out


rows = []
for f in sorted(hits):
    p = repo + f
    if not os.path.exists(p):
        continue
    ex = exec_lines(p)
    h = hits[f] & ex
    rows.append((f, len(ex), len(h)))
    if want and any(w in f for w in want):
        miss = sorted(ex - h)
        rng, start, prev = [], None, None
        for n in miss:
            if start is None:
                start = prev = n
            elif n <= prev + 2:
                prev = n
            else:
                rng.append((start, prev)); start = prev = n
        if start is not None:
            rng.append((start, prev))
        print(f'--- {f}: {len(h)}/{len(ex)} executable lines reached; unreached:', ' '.join(f'{a}-{b}' if a != b else str(a) for a, b in rng))
for f, e, h in rows:
    print(f'{h:6d}/{e:6d} {100.0 * h / max(e, 1):5.1f}%  {f}')
