"""Small helpers for comparing an expected value with a number printed in the report."""
import math
import re

NUM = r'[-+]?(?:\d[\d,]*\.?\d*(?:[eE][-+]?\d+)?|\.\d+|nan|inf)'


def find_line(report, label):
    """first line whose stripped text starts with `label:`; returns (value_str, unit_str) or None."""
    pat = re.compile(r'^\s*' + re.escape(label) + r'\s*:\s*(' + NUM + r'|N/A)\s*(.*?)\s*$', re.I)
    for line in report.splitlines():
        m = pat.match(line)
        if m:
            return m.group(1), m.group(2)
    return None


def decimals_of(s):
    s = s.lower()
    if 'e' in s:
        return None
    return len(s.split('.')[1]) if '.' in s else 0


def printed_matches(expected, printed, rtol_tie=1e-9):
    """does `printed` (string) equal `expected` formatted with the same number of decimals? ties tolerated."""
    p = printed.replace(',', '').lower()
    try:
        pv = float(p)
    except ValueError:
        return False
    if math.isnan(pv) or math.isnan(expected):
        return math.isnan(pv) and math.isnan(expected)
    if math.isinf(pv) or math.isinf(expected):
        return pv == expected
    if 'e' in p:
        mant = p.split('e')[0]
        nd = len(mant.split('.')[1]) if '.' in mant else 0
        return f'{expected:.{nd}e}' == f'{pv:.{nd}e}' or abs(expected - pv) <= abs(expected) * 10 ** (-nd) * 0.5000001
    nd = decimals_of(p)
    if f'{expected:.{nd}f}' == f'{pv:.{nd}f}':
        return True
    # rounding tie or last-ulp effects: accept if within half a unit of the last printed place (+ tiny slack)
    return abs(expected - pv) <= 0.5 * 10 ** (-nd) * (1 + 1e-6) + rtol_tie * abs(expected)
