"""
Execution substrate: a pool of long-lived workers; every *execution* of repository code happens in a child
forked from a worker, so each execution starts from the same pristine post-import process image, gets a
private scratch directory (TMPDIR + cwd) and cannot contaminate another one.

    run_tasks(task_fn, payloads)        -> iterator of (payload_index, task_result)   (parallel, unordered)
    fork_exec(fn, arg, timeout)         -> ('ok', value) | ('exc', repr, tb) | ('timeout', ...) | ('died', ...)

`task_fn(payload)` runs inside a pool worker and usually calls `fork_exec` one or more times (once for a unary
monitor, several times for a relational one); anything it does *outside* fork_exec must be pure.
"""
import os
import sys

for _v in ('OMP_NUM_THREADS', 'OPENBLAS_NUM_THREADS', 'MKL_NUM_THREADS', 'NUMEXPR_NUM_THREADS'):
    os.environ.setdefault(_v, '1')
os.environ.setdefault('MPLBACKEND', 'Agg')

import pickle
import select
import shutil
import signal
import tempfile
import time
import traceback
import multiprocessing as mp

REPO = os.environ.get('VF_REPO', '/repo')
SCRATCH_ROOT = os.environ.get('VF_SCRATCH', '/var/tmp')
_scratch = None


def repo_src():
    return os.path.join(REPO, 'src')


def bind_repo():
    """Make `import geophires_x` resolve to REPO/src (the current working tree), whatever is installed."""
    src = repo_src()
    if src in sys.path:
        sys.path.remove(src)
    sys.path.insert(0, src)


def scratch_dir():
    global _scratch
    if _scratch is None or not os.path.isdir(_scratch):
        os.makedirs(SCRATCH_ROOT, exist_ok=True)
        _scratch = tempfile.mkdtemp(prefix=f'vf-{os.getpid()}-', dir=SCRATCH_ROOT)
    return _scratch


def cleanup_scratch():
    global _scratch
    if _scratch and os.path.isdir(_scratch):
        shutil.rmtree(_scratch, ignore_errors=True)
    _scratch = None


def preload():
    """Import the heavy parts of the repository once per worker so forked children start warm."""
    bind_repo()
    from vf.core import cover
    cover.start(repo_src())
    import logging
    logging.disable(logging.CRITICAL)
    import numpy  # noqa
    import geophires_x.Model  # noqa
    import geophires_x_client  # noqa
    import geophires_x.GEOPHIRESv3  # noqa
    try:
        import hip_ra_x  # noqa
    except Exception:
        pass
    assert os.path.realpath(geophires_x.Model.__file__).startswith(os.path.realpath(repo_src())), \
        f'geophires_x imported from {geophires_x.Model.__file__}, expected under {repo_src()}'


def fork_exec(fn, arg, timeout=300.0, keep_output=False):
    """Run fn(arg) in a forked child with private TMPDIR/cwd; return a tagged tuple."""
    work = tempfile.mkdtemp(prefix='x-', dir=scratch_dir())
    r, w = os.pipe()
    pid = os.fork()
    if pid == 0:
        code = 0
        try:
            os.close(r)
            signal.signal(signal.SIGINT, signal.SIG_IGN)
            try:    # executions may start real process pools; pool workers of *this* harness are daemonic
                mp.current_process()._config['daemon'] = False
            except Exception:  # noqa
                pass
            os.environ['TMPDIR'] = work
            tempfile.tempdir = work
            os.chdir(work)
            if not keep_output:
                dn = os.open(os.devnull, os.O_RDWR)
                os.dup2(dn, 0)
                os.dup2(dn, 1)
                os.dup2(dn, 2)
                sys.stdout = open(os.devnull, 'w')
                sys.stderr = open(os.devnull, 'w')
            from vf.core import cover
            cover.child_begin()
            try:
                res = ('ok', fn(arg))
            except BaseException as e:  # noqa
                res = ('exc', f'{type(e).__name__}: {e}', traceback.format_exc())
            if cover.DIR:
                res = res + ({'__cover__': cover.child_new()},)
            try:
                data = pickle.dumps(res, protocol=pickle.HIGHEST_PROTOCOL)
            except BaseException as e:  # noqa
                data = pickle.dumps(('exc', f'unpicklable result: {e!r}', traceback.format_exc()))
            with os.fdopen(w, 'wb') as f:
                f.write(data)
        except BaseException:  # noqa
            code = 3
        finally:
            os._exit(code)
    os.close(w)
    chunks = []
    deadline = time.time() + timeout
    status = None
    try:
        while True:
            left = deadline - time.time()
            if left <= 0:
                status = 'timeout'
                break
            rl, _, _ = select.select([r], [], [], min(left, 5.0))
            if rl:
                b = os.read(r, 1 << 20)
                if not b:
                    break
                chunks.append(b)
    finally:
        os.close(r)
    if status == 'timeout':
        try:
            os.kill(pid, signal.SIGKILL)
        except ProcessLookupError:
            pass
    try:
        os.waitpid(pid, 0)
    except ChildProcessError:
        pass
    shutil.rmtree(work, ignore_errors=True)
    if status == 'timeout':
        return ('timeout', f'execution exceeded {timeout}s', '')
    data = b''.join(chunks)
    if not data:
        return ('died', 'child produced no result', '')
    try:
        res = pickle.loads(data)
    except Exception as e:  # noqa
        return ('died', f'bad result: {e!r}', '')
    if res and isinstance(res[-1], dict) and '__cover__' in res[-1]:
        from vf.core import cover
        cover.parent_merge(res[-1]['__cover__'])
        cover.flush()
        res = res[:-1]
    return res


def _worker_init(extra_init):
    signal.signal(signal.SIGINT, signal.SIG_IGN)
    preload()
    if extra_init:
        extra_init()


def _call(args):
    fn, idx, payload = args
    try:
        return idx, ('ok', fn(payload))
    except BaseException as e:  # noqa
        return idx, ('task_exc', f'{type(e).__name__}: {e}', traceback.format_exc())


def run_tasks(task_fn, payloads, nproc=None, extra_init=None, deadline=None):
    """
    Yield (index, tagged_result) for every payload; stops handing out results after `deadline` (epoch seconds),
    in which case the caller sees fewer results than payloads and must report the cap.
    """
    nproc = nproc or int(os.environ.get('VF_NPROC', '0')) or min(16, os.cpu_count() or 4)
    payloads = list(payloads)
    if not payloads:
        return
    scratch_dir()
    ctx = mp.get_context('fork')
    pool = ctx.Pool(min(nproc, len(payloads)), initializer=_worker_init, initargs=(extra_init,))
    try:
        it = pool.imap_unordered(_call, [(task_fn, i, p) for i, p in enumerate(payloads)], chunksize=1)
        while True:
            try:
                if deadline is not None:
                    left = deadline - time.time()
                    if left <= 0:
                        break
                    item = it.next(timeout=left)
                else:
                    item = it.next()
            except StopIteration:
                break
            except mp.TimeoutError:
                break
            yield item
    finally:
        pool.terminate()
        pool.join()
        # scratch of pool workers lives under SCRATCH_ROOT/vf-<workerpid>-*; remove those we own
        for d in os.listdir(SCRATCH_ROOT):
            if d.startswith('vf-'):
                p = os.path.join(SCRATCH_ROOT, d)
                try:
                    owner = int(d.split('-')[1])
                except Exception:
                    continue
                if not os.path.exists(f'/proc/{owner}'):
                    shutil.rmtree(p, ignore_errors=True)
        cleanup_scratch()
