"""
Child-side driver: one complete execution of the real pipeline through the real client, with the observation
hook armed. Must be called inside runner.fork_exec (it mutates process state freely).

    simulate(lines, at_hook=None, after=None, want=('report',)) -> dict

`at_hook(model)` runs on the live model between Calculate() and PrintOutputs(); its return value is stored under
'hook'. `after(obs)` may post-process in the child. Everything returned must be picklable.
"""
import os
import sys
import io
import json
import tempfile
from pathlib import Path

CLOCK_PREFIXES = ('Simulation Date:', 'Simulation Time:', 'Calculation Time:')


def strip_clock(text: str) -> str:
    return '\n'.join(l for l in text.splitlines() if not l.strip().startswith(CLOCK_PREFIXES))


def write_input(lines, name='in.txt', newline='\n') -> Path:
    p = Path(tempfile.gettempdir(), name)
    with open(p, 'w', encoding='UTF-8', newline='') as f:
        for l in lines:
            f.write(l + newline)
    return p


def simulate(lines, at_hook=None, want=('report',), input_name='in.txt', raw_text=None, caching=False, params=None):
    os.environ['GEOPHIRES_X_VERIF'] = '1'
    from geophires_x import _verif_hooks
    from geophires_x_client import GeophiresXClient, GeophiresInputParameters
    obs = {'status': None, 'exc': None, 'hook': None, 'hook_exc': None}
    _verif_hooks.clear()

    def observer(event, model):
        if event != 'after_calculate':
            return
        obs['hook_called'] = True
        if at_hook is not None:
            try:
                obs['hook'] = at_hook(model)
            except BaseException as e:  # an oracle/adapter error must not look like a rejected input
                import traceback
                obs['hook_exc'] = f'{type(e).__name__}: {e}\n{traceback.format_exc()}'

    _verif_hooks.register(observer)
    if raw_text is not None:
        p = Path(tempfile.gettempdir(), input_name)
        with open(p, 'w', encoding='UTF-8', newline='') as f:
            f.write(raw_text)
    else:
        p = write_input(lines, input_name)
    params = GeophiresInputParameters(from_file_path=p) if params is None else GeophiresInputParameters(dict(params), from_file_path=p)
    client = GeophiresXClient(enable_caching=caching)
    out_path = params.get_output_file_path()
    try:
        result = client.get_geophires_result(params)
        obs['status'] = 'accepted'
    except BaseException as e:  # noqa
        obs['status'] = 'not_accepted'
        c = e.__cause__
        obs['exc'] = f'{type(e).__name__}: {e}'
        obs['exc_class'] = type(c).__name__ if c is not None else type(e).__name__
        obs['report_exists'] = os.path.exists(out_path)
        _verif_hooks.clear()
        return obs
    finally:
        _verif_hooks.clear()
    if 'report' in want:
        with open(out_path, encoding='UTF-8') as f:
            obs['report'] = f.read()
    if 'json' in want:
        jp = str(out_path).replace(Path(out_path).name, Path(out_path).stem + '.json')
        try:
            with open(jp, encoding='UTF-8') as f:
                obs['json'] = json.load(f)
        except Exception as e:  # noqa
            obs['json_exc'] = repr(e)
    if 'result' in want:
        import copy
        obs['result'] = copy.deepcopy(result.result)       # as parsed, before any export touches the object
    if 'csv' in want:
        try:
            obs['csv'] = result.as_csv()
        except Exception as e:  # noqa
            obs['csv_exc'] = repr(e)
        # an export is a read: the same object exports the same text again and still holds what it held
        try:
            obs['csv_again'] = result.as_csv()
        except Exception as e:  # noqa
            obs['csv_again_exc'] = repr(e)
        obs['result_after_csv_same'] = (result.result == obs['result']) if 'result' in obs else None
    return obs
