"""
Aggregation side of a check: collects task results, applies the known-findings file, confirms and writes
replays, writes the evidence file, prints the interface lines and decides the exit status.

exit 0  property held on everything explored (KNOWN-FINDING lines allowed)
exit 1  at least one VIOLATION line
exit 2  infrastructure problem (oracle adapter broke, nondeterministic verdict, base family not accepted ...)
"""
import fnmatch
import hashlib
import importlib
import json
import os
import subprocess
import sys
import time

VERIF = os.path.dirname(os.path.dirname(os.path.dirname(os.path.abspath(__file__))))
KNOWN = os.path.join(VERIF, 'known_findings.json')
OUT = os.environ.get('VF_OUT') or VERIF      # evidence/ and replays/ root (redirected for mutation runs)
VIOL_CAP = int(os.environ.get('VF_VIOL_CAP', '40'))


def digest(obj) -> str:
    return hashlib.sha1(json.dumps(obj, sort_keys=True, default=str).encode()).hexdigest()[:16]


def load_known(pid):
    try:
        with open(KNOWN) as f:
            allf = json.load(f).get('findings', [])
    except FileNotFoundError:
        allf = []
    return [k for k in allf if k.get('property') == pid and k.get('status') == 'open']


def new_result():
    return {'execs': 0, 'accepted': 0, 'not_accepted': 0, 'fails': [], 'states': [], 'nontrivial': [],
            'counters': {}, 'sets': {}, 'infra': [], 'steps': 0}


def bump(res, name, n=1):
    res['counters'][name] = res['counters'].get(name, 0) + n


def note(res, name, item):
    res['sets'].setdefault(name, [])
    if item not in res['sets'][name]:
        res['sets'][name].append(item)


def fail(res, key, msg):
    res['fails'].append({'key': key, 'msg': str(msg)[:1500]})


class Collector:
    def __init__(self, pid, tier, seed, level='exploration', module=None):
        self.pid, self.tier, self.seed, self.level, self.module = pid, tier, seed, level, module
        self.t0 = time.time()
        self.execs = self.accepted = self.not_accepted = self.steps = 0
        self.tasks = 0
        self.states, self.nontrivial = set(), set()
        self.counters, self.sets = {}, {}
        self.fail_by_key = {}     # key -> (payload_index, payload, msg, count)
        self.infra = []
        self.samples = []
        self.capped = False
        self.planned = 0
        self.extra = {}
        self.assumptions = []
        self.rule = ''
        self.exhaustive = True

    def add(self, idx, payload, tagged):
        self.tasks += 1
        if tagged[0] != 'ok':
            self.infra.append(f'task {idx} failed: {tagged[1]}\n{tagged[2] if len(tagged) > 2 else ""}')
            return
        r = tagged[1]
        self.execs += r.get('execs', 0)
        self.accepted += r.get('accepted', 0)
        self.not_accepted += r.get('not_accepted', 0)
        self.steps += r.get('steps', 0)
        self.states.update(r.get('states', []))
        self.nontrivial.update(r.get('nontrivial', []))
        for k, v in r.get('counters', {}).items():
            self.counters[k] = self.counters.get(k, 0) + v
        for k, v in r.get('sets', {}).items():
            s = self.sets.setdefault(k, set())
            s.update(v if isinstance(v, (list, set, tuple)) else [v])
        self.infra.extend(r.get('infra', []))
        for f in r.get('fails', []):
            cur = self.fail_by_key.get(f['key'])
            if cur is None or idx < cur[0]:
                self.fail_by_key[f['key']] = (idx, payload, f['msg'], (cur[3] if cur else 0) + 1)
            else:
                self.fail_by_key[f['key']] = (cur[0], cur[1], cur[2], cur[3] + 1)
        if r.get('sample') is not None and len(self.samples) < 6:
            self.samples.append(r['sample'])

    # ------------------------------------------------------------------
    def finish(self, task_fn=None, confirm=True):
        known = load_known(self.pid)
        violations, known_seen = [], []
        for key in sorted(self.fail_by_key, key=lambda k: self.fail_by_key[k][0]):
            idx, payload, msg, cnt = self.fail_by_key[key]
            hit = next((k for k in known if fnmatch.fnmatchcase(key, k['key'])), None)
            if hit is not None:
                known_seen.append((key, hit, cnt))
            else:
                violations.append((key, idx, payload, msg, cnt))
        out_lines = []
        for key, hit, cnt in known_seen:
            out_lines.append(f"KNOWN-FINDING: property={self.pid} {hit['what']} [key={key} occurrences={cnt}]")
        n_viol = 0
        rdir = os.path.join(OUT, 'replays', self.pid)
        confirmed = {}
        if confirm and task_fn is not None and violations:
            confirmed = _confirm_all(task_fn, [(key, payload) for key, _i, payload, _m, _c in violations[:VIOL_CAP]])
        for key, idx, payload, msg, cnt in violations[:VIOL_CAP]:
            if confirm and task_fn is not None:
                if confirmed.get(key) is False:
                    self.infra.append(f'nondeterministic verdict for key {key}: did not reproduce on re-execution')
                    continue
            os.makedirs(rdir, exist_ok=True)
            path = os.path.join(rdir, digest([key, payload]) + '.json')
            with open(path, 'w') as f:
                json.dump({'property': self.pid, 'module': self.module, 'key': key, 'msg': msg, 'seed': self.seed,
                           'tier': self.tier, 'occurrences': cnt, 'payload': payload}, f, indent=1, default=str)
            out_lines.append(f'VIOLATION property={self.pid} replay={path}')
            out_lines.append(f'  key={key} occurrences={cnt}: {msg[:600]}')
            n_viol += 1
        if len(violations) > VIOL_CAP:
            out_lines.append(f'  ... and {len(violations) - VIOL_CAP} further distinct violation keys')
        self.extra['violation_keys'] = [v[0] for v in violations][:300]
        self._write_evidence(n_viol, known_seen)
        for l in out_lines:
            print(l)
        cov = (f'property={self.pid} tier={self.tier} seed={self.seed} tasks={self.tasks}/{self.planned} '
               f'executions={self.execs} accepted={self.accepted} not_accepted={self.not_accepted} '
               f'states={len(self.states)} nontrivial={len(self.nontrivial)} violations={n_viol} '
               f'known={len(known_seen)} capped={self.capped} wall={time.time() - self.t0:.1f}s')
        print(cov)
        if self.infra:
            print(f'INFRASTRUCTURE-ERROR property={self.pid} count={len(self.infra)}', file=sys.stderr)
            for m in self.infra[:5]:
                print('  ' + m[:3000], file=sys.stderr)
            return 2 if n_viol == 0 else 1
        return 1 if n_viol else 0

    def _write_evidence(self, n_viol, known_seen):
        cov = {
            'evaluations': self.execs,
            'distinct_nontrivial': len(self.nontrivial),
            'rule': self.rule,
            'samples': self.samples,
            'states': len(self.states),
            'transitions': self.steps if self.steps else self.execs,
            'exhaustive': bool(self.exhaustive and not self.capped),
            'tasks_planned': self.planned,
            'tasks_completed': self.tasks,
            'capped': self.capped,
            'accepted': self.accepted,
            'not_accepted': self.not_accepted,
            'counters': dict(sorted(self.counters.items())),
            'known_findings_seen': [{'key': k, 'occurrences': c} for k, _, c in known_seen],
        }
        for k, v in self.sets.items():
            cov[k] = sorted(v, key=str)[:400]
        cov.update(self.extra)
        ev = {'property_id': self.pid, 'tier': self.tier, 'seed': self.seed, 'level': self.level, 'coverage': cov,
              'assumptions': self.assumptions, 'wall_s': round(time.time() - self.t0, 2), 'violations': n_viol}
        os.makedirs(os.path.join(OUT, 'evidence'), exist_ok=True)
        path = os.path.join(OUT, 'evidence', f'{self.pid}.json')
        with open(path, 'w') as f:
            json.dump(ev, f, indent=1, default=str)
        validate_evidence(path)


def validate_evidence(path):
    schema = '/root/.vp/EVIDENCE.schema.json'
    if not os.path.exists(schema) or not os.path.exists('/opt/veriftools/pyvenv/bin/python'):
        return
    code = ("import json,sys,jsonschema;"
            "jsonschema.validate(json.load(open(sys.argv[1])), json.load(open(sys.argv[2])))")
    try:
        p = subprocess.run(['/opt/veriftools/pyvenv/bin/python', '-c', code, path, schema], capture_output=True,
                           text=True, timeout=60, env={'PATH': os.environ.get('PATH', '')})
        if p.returncode != 0:
            print(f'EVIDENCE-SCHEMA-WARNING {path}: {p.stderr.strip().splitlines()[-1] if p.stderr else ""}',
                  file=sys.stderr)
    except Exception:
        pass


def _confirm_all(task_fn, keyed_payloads):
    """Re-run the payload of every violation once more (fresh workers, one pool); key -> reproduced?"""
    from . import runner
    out = {}
    payloads = [p for _k, p in keyed_payloads]
    for idx, tagged in runner.run_tasks(task_fn, payloads):
        key = keyed_payloads[idx][0]
        out[key] = tagged[0] == 'ok' and any(f['key'] == key for f in tagged[1].get('fails', []))
    for k, _p in keyed_payloads:
        out.setdefault(k, False)
    return out


def _confirm(module, task_fn, payload, key):
    """Re-run one payload from a fresh worker; True if the same key fails again."""
    from . import runner
    for _, tagged in runner.run_tasks(task_fn, [payload], nproc=1):
        if tagged[0] != 'ok':
            return False
        return any(f['key'] == key for f in tagged[1].get('fails', []))
    return False


def seed_from_env():
    try:
        return int(os.environ.get('VERIF_SEED', '0'))
    except ValueError:
        return 0
