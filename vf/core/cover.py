"""
Line coverage of the repository code by an exploration (VF_COVER=<dir>): which source lines the enumerated space actually
executed. Python 3.12 sys.monitoring LINE events, each location disabled after its first hit, so the cost per execution is one
callback per distinct line. Children forked by runner.fork_exec report the lines that were new to their worker; the worker
appends them to <dir>/<worker pid>.txt. tools/cover_report.py merges the files and lists executable lines never reached.
Supporting evidence only (it shows where a corpus is blind); no verdict depends on it.
"""
import os
import sys

DIR = os.environ.get('VF_COVER') or None
_hits = set()
_new = []
_prefix = None


def _cb(code, line):
    fn = code.co_filename
    if fn.startswith(_prefix):
        k = (fn[len(_prefix):], line)
        if k not in _hits:
            _hits.add(k)
            _new.append(k)
    return sys.monitoring.DISABLE


def start(repo_src):
    """called in a pool worker before the repository is imported"""
    global _prefix
    if not DIR or _prefix is not None:
        return
    _prefix = os.path.realpath(repo_src).rstrip('/') + '/'
    os.makedirs(DIR, exist_ok=True)
    mon = sys.monitoring
    mon.use_tool_id(mon.COVERAGE_ID, 'vfcover')
    mon.register_callback(mon.COVERAGE_ID, mon.events.LINE, _cb)
    mon.set_events(mon.COVERAGE_ID, mon.events.LINE)


def child_begin():
    del _new[:]


def child_new():
    return list(_new) if DIR else None


def parent_merge(new):
    if not DIR or not new:
        return
    fresh = [k for k in map(tuple, new) if k not in _hits]
    _hits.update(fresh)
    flush(fresh)


def flush(keys=None):
    if not DIR:
        return
    keys = list(_new) if keys is None else keys
    if keys:
        with open(os.path.join(DIR, f'{os.getpid()}.txt'), 'a') as f:
            for fn, ln in keys:
                f.write(f'{fn}:{ln}\n')
    if keys is _new or keys is None:
        del _new[:]
