"""Snapshots of the live model for relational (metamorphic) monitors: every numeric output of every module."""
import math

import numpy as np

MODS = ('reserv', 'wellbores', 'surfaceplant', 'economics', 'addeconomics', 'sdacgteconomics')


def _num(v):
    if isinstance(v, bool):
        return float(v)
    if isinstance(v, (int, float, np.integer, np.floating)):
        return float(v)
    if hasattr(v, 'int_value'):
        return float(v.int_value)
    if isinstance(v, (list, tuple, np.ndarray)):
        try:
            a = np.asarray(v, dtype=float).ravel()
            return [float(x) for x in a]
        except (TypeError, ValueError):
            return None
    return None


def outputs(m):
    """{module.outputname: number | [numbers]} for every output parameter (pre-print values and units)."""
    out = {}
    for mn in MODS:
        mod = getattr(m, mn, None)
        if mod is None or not hasattr(mod, 'OutputParameterDict'):
            continue
        for k, p in mod.OutputParameterDict.items():
            if not hasattr(p, 'value'):
                continue
            v = _num(p.value)
            if v is not None:
                out[f'{mn}.{k}'] = v
    return out


def units(m):
    out = {}
    for mn in MODS:
        mod = getattr(m, mn, None)
        if mod is None or not hasattr(mod, 'OutputParameterDict'):
            continue
        for k, p in mod.OutputParameterDict.items():
            cu = getattr(p, 'CurrentUnits', None)
            out[f'{mn}.{k}'] = str(getattr(cu, 'value', cu))
    return out


def close(a, b, rtol=1e-9, atol=1e-12):
    if isinstance(a, list) != isinstance(b, list):
        return False
    if isinstance(a, list):
        if len(a) != len(b):
            return False
        return all(close(x, y, rtol, atol) for x, y in zip(a, b))
    if math.isnan(a) or math.isnan(b):
        return math.isnan(a) and math.isnan(b)
    if math.isinf(a) or math.isinf(b):
        return a == b
    return abs(a - b) <= atol + rtol * max(abs(a), abs(b))


def diff(s1, s2, rtol=1e-9, atol=1e-12, ignore=()):
    """names whose values differ between two snapshots (or exist in only one)."""
    bad = []
    for k in sorted(set(s1) | set(s2)):
        if any(k.endswith(i) or k == i for i in ignore):
            continue
        if k not in s1 or k not in s2:
            bad.append(k)
        elif not close(s1[k], s2[k], rtol, atol):
            bad.append(k)
    return bad
