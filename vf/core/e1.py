"""
E1 `xplore`: deviation-bounded exhaustive exploration of the input space (DESIGN 3.2).

A payload is {'fam': <family dict>, 'changes': {name: value|None}, 'base': bool, ...}. `unary_task` runs one
complete execution of the real pipeline in a forked child with a monitor armed at the hook.
"""
import itertools
import os
import time

from vf.core import runner, sim, check
from vf import families as F

DEFAULT_BUDGET = {'quick': 1500.0, 'thorough': 3 * 3600.0}


def payload_lines(payload):
    if 'lines' in payload:
        return list(payload['lines'])
    return F.lines(F.override(F.fam_base(payload['fam']), payload.get('changes', {})))


def unary_task(payload, at_hook, post=None, want=('report',), timeout=300.0):
    """
    at_hook(model, payload) -> {'fails': [(key, msg)], 'state': obj, 'nontrivial': bool, 'sample': obj, 'counters': {}}
    post(obs, payload, res)  -> may add fails using the report text etc. (runs in the child)
    """
    res = check.new_result()

    def job(_):
        lines = payload_lines(payload)
        obs = sim.simulate(lines, at_hook=(lambda m: at_hook(m, payload)) if at_hook else None, want=want)
        out = {'status': obs['status'], 'exc': obs.get('exc'), 'exc_class': obs.get('exc_class'),
               'hook': obs.get('hook'), 'hook_exc': obs.get('hook_exc'), 'post': None, 'post_exc': None}
        if post is not None and obs['status'] == 'accepted':
            try:
                out['post'] = post(obs, payload)
            except BaseException as e:  # noqa
                import traceback
                out['post_exc'] = f'{type(e).__name__}: {e}\n{traceback.format_exc()}'
        return out

    tag = runner.fork_exec(job, None, timeout=timeout)
    res['execs'] = 1
    res['steps'] = 1
    if tag[0] != 'ok':
        if tag[0] == 'timeout':
            check.bump(res, 'timeouts')
            res['not_accepted'] = 1
            return res
        res['infra'].append(f'execution failed ({tag[0]}): {tag[1]} {tag[2] if len(tag) > 2 else ""} payload={payload}')
        return res
    out = tag[1]
    if out['status'] != 'accepted':
        res['not_accepted'] = 1
        check.bump(res, 'rejected:' + str(out.get('exc_class')))
        check.note(res, 'rejected_inputs', f"{out.get('exc_class')}: {payload.get('changes', payload.get('tag', ''))} :: {str(out.get('exc'))[:160]}")
        if payload.get('base'):
            res['infra'].append(f'family base not accepted: {out["exc"]} payload={payload}')
        return res
    res['accepted'] = 1
    for part, exc in (('hook', out['hook_exc']), ('post', out['post_exc'])):
        if exc:
            res['infra'].append(f'{part} monitor crashed: {exc} payload={payload}')
    for part in ('hook', 'post'):
        h = out[part]
        if not h:
            continue
        for key, msg in h.get('fails', []):
            check.fail(res, key, msg)
        if h.get('state') is not None:
            d = check.digest(h['state'])
            res['states'].append(d)
            if h.get('nontrivial'):
                res['nontrivial'].append(d)
        for k, v in h.get('counters', {}).items():
            check.bump(res, k, v)
        for k, v in h.get('sets', {}).items():
            for item in v:
                check.note(res, k, item)
        if h.get('sample') is not None and res.get('sample') is None:
            res['sample'] = h['sample']
    return res


def run_generic(mod, pid, tier, seed, budget=None, level='exploration', rule='', assumptions=(), extra=None,
                nproc=None):
    payloads = mod.plan(tier, seed)
    col = check.Collector(pid, tier, seed, level=level, module=mod.__name__)
    col.planned = len(payloads)
    col.rule = rule
    col.assumptions = list(assumptions)
    if extra:
        col.extra.update(extra)
    budget = budget or float(os.environ.get('VF_BUDGET', 0)) or DEFAULT_BUDGET[tier]
    deadline = time.time() + budget
    for idx, tagged in runner.run_tasks(mod.task, payloads, deadline=deadline, nproc=nproc):
        col.add(idx, payloads[idx], tagged)
    if col.tasks < col.planned:
        col.capped = True
        col.extra['cap_note'] = (f'time cap of {budget:.0f}s hit: {col.tasks} of {col.planned} planned tasks completed; '
                                 f'enumeration order is deterministic, so the completed ones are a prefix-closed set '
                                 f'only up to pool scheduling')
    return col.finish(mod.task)


def deviations(params_alphabets, d):
    """all change-sets with exactly d deviating parameters: yields dict name -> value."""
    names = list(params_alphabets)
    for S in itertools.combinations(names, d):
        for choice in itertools.product(*[params_alphabets[p] for p in S]):
            yield dict(zip(S, choice))
