"""Helper for relational tasks: run one input in its own forked child and return a picklable observation."""
from vf.core import runner, sim, snap, check
from vf import families as F


def observe(lines, want=('report',), extra_hook=None, timeout=300):
    """-> ('ok', obs) | ('rejected', obs) | ('infra', message)"""
    def job(_):
        def at_hook(m):
            h = {'out': snap.outputs(m)}
            if extra_hook:
                h['extra'] = extra_hook(m)
            return h
        o = sim.simulate(lines, at_hook=at_hook, want=want)
        if o.get('report'):
            o['report'] = sim.strip_clock(o['report'])
        return o
    tag = runner.fork_exec(job, None, timeout=timeout)
    if tag[0] != 'ok':
        return 'infra', f'{tag[0]}: {tag[1]} {tag[2] if len(tag) > 2 else ""}'
    o = tag[1]
    if o.get('hook_exc'):
        return 'infra', 'hook crashed: ' + o['hook_exc']
    if o['status'] != 'accepted':
        return 'rejected', o
    return 'ok', o


class Runner:
    """bookkeeping wrapper used inside a relational task."""

    def __init__(self, res):
        self.res = res

    def run(self, lines, want=('report',), extra_hook=None, tagname=''):
        st, o = observe(lines, want, extra_hook)
        self.res['execs'] += 1
        self.res['steps'] += 1
        if st == 'infra':
            self.res['infra'].append(f'{o} [{tagname}]')
            return None
        if st == 'rejected':
            self.res['not_accepted'] += 1
            check.bump(self.res, 'rejected:' + str(o.get('exc_class')))
            check.note(self.res, 'rejected_inputs', f"{o.get('exc_class')}: {tagname} :: {str(o.get('exc'))[:140]}")
            return None
        self.res['accepted'] += 1
        return o
