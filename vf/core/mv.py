"""Model view: the single place that knows attribute names of the live Model (DESIGN 3.1)."""
import math
import numpy as np


class AdapterError(Exception):
    pass


def V(obj, name):
    """obj.<name>.value, failing loudly (infrastructure error, not a pass) if the attribute is gone."""
    try:
        p = getattr(obj, name)
    except AttributeError:
        raise AdapterError(f'{type(obj).__name__} has no attribute {name!r}')
    if not hasattr(p, 'value'):
        raise AdapterError(f'{type(obj).__name__}.{name} has no .value')
    return p.value


def A(obj, name):
    return np.asarray(V(obj, name), dtype=float)


def has(obj, name):
    return hasattr(obj, name) and hasattr(getattr(obj, name), 'value')


def enum_int(v):
    """int code of an option enum value (EndUseOptions.ELECTRICITY -> 1 ...)."""
    for attr in ('int_value', 'value'):
        x = getattr(v, attr, None)
        if isinstance(x, int):
            return x
    if isinstance(v, int):
        return v
    raise AdapterError(f'cannot map option {v!r} to int')


def close(a, b, rtol=1e-9, atol=1e-12):
    """scalar closeness with nan==nan and inf==inf(same sign)."""
    a = float(a)
    b = float(b)
    if math.isnan(a) or math.isnan(b):
        return math.isnan(a) and math.isnan(b)
    if math.isinf(a) or math.isinf(b):
        return a == b
    return abs(a - b) <= atol + rtol * max(abs(a), abs(b))


def first_mismatch(a, b, rtol=1e-9, atol=1e-12):
    """index of first element where arrays differ (or -1 if shapes differ), None if all close."""
    a = np.asarray(a, dtype=float)
    b = np.asarray(b, dtype=float)
    if a.shape != b.shape:
        return -1
    for i in range(a.size):
        if not close(a.flat[i], b.flat[i], rtol, atol):
            return i
    return None


def class_tuple(m):
    return [type(x).__name__ for x in (m.reserv, m.wellbores, m.surfaceplant, m.economics, m.outputs)]
