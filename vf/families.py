"""
Grid families: the complete product of structural choices, each with a cheap base input.
A base is an ordered dict {parameter name: value string}; `lines(d)` renders it.
"""
import itertools
import os
from collections import OrderedDict

from vf.core import runner

ECON_MODELS = (1, 2, 3)
# the (end-use, plant type) pairs that run on the pinned tree (DESIGN 3.7)
ELEC_PLANTS = (1, 2, 3, 4)
COGEN = (31, 32, 41, 42, 51, 52)
HEAT_PAIRS = ((2, 9), (2, 5), (2, 6), (2, 7))
PAIRS = tuple((1, p) for p in ELEC_PLANTS) + HEAT_PAIRS + tuple((e, p) for e in COGEN for p in ELEC_PLANTS)
RES_MODELS = (1, 2, 3, 4)
SHAPES_QUICK = ((5, 3, 2), (3, 1, 1), (2, 4, 3))      # (lifetime, steps per year, construction years)
SHAPES_MORE = ((1, 2, 1), (4, 2, 1), (7, 12, 2), (30, 1, 1), (12, 2, 14))


def demand_csv():
    return os.path.join(runner.REPO, 'src', 'geophires_x', 'Examples', 'cornell_heat_demand.csv')


def daily_demand_csv():
    """a 365-row daily demand file (MWh/day) derived from the shipped hourly one; written once per scratch root, re-created on demand"""
    path = os.path.join(runner.SCRATCH_ROOT, f'vf-static-{os.getuid()}', 'daily_heat_demand.csv')
    if not os.path.exists(path):
        os.makedirs(os.path.dirname(path), exist_ok=True)
        with open(demand_csv(), encoding='utf-8-sig') as f:
            rows = [float(l.split(',')[1]) for l in f.read().splitlines()[1:] if l.strip()]
        tmp = path + f'.{os.getpid()}'
        with open(tmp, 'w') as f:
            f.write('day,MWh\n')
            for d in range(365):
                f.write(f'{d + 1},{sum(rows[d * 24:(d + 1) * 24])!r}\n')
        os.replace(tmp, path)
    return path


def leap_demand_csv():
    """the shipped hourly demand file continued by a 366th day (a leap year's 8784 hours; the extra day's demand is conspicuous)"""
    path = os.path.join(runner.SCRATCH_ROOT, f'vf-static-{os.getuid()}', 'leap_year_heat_demand.csv')
    if not os.path.exists(path):
        os.makedirs(os.path.dirname(path), exist_ok=True)
        with open(demand_csv(), encoding='utf-8-sig') as f:
            lines = [l for l in f.read().splitlines() if l.strip()]
        head, rows = lines[0], lines[1:8761]
        tmp = path + f'.{os.getpid()}'
        with open(tmp, 'w') as f:
            f.write(head + '\n' + '\n'.join(rows) + '\n')
            for h in range(24):
                f.write(f'{8761 + h},{97.0 + h}\n')
        os.replace(tmp, path)
    return path


def base(econ=1, enduse=1, plant=1, res=4, shape=(5, 3, 2), redrill=False) -> OrderedDict:
    L, n, cy = shape
    d = OrderedDict()
    d['Reservoir Model'] = str(res)
    d['Reservoir Depth'] = '3'
    d['Number of Segments'] = '1'
    d['Gradient 1'] = '55'
    d['Maximum Temperature'] = '400'
    d['Number of Production Wells'] = '3'      # twins are deliberately different (production/injection, surface/ambient, PI/II ...):
    # a slip that takes one for the other must change something observable
    d['Number of Injection Wells'] = '2'
    d['Production Well Diameter'] = '8'
    d['Injection Well Diameter'] = '7'
    d['Ramey Production Wellbore Model'] = '1'
    d['Injection Wellbore Temperature Gain'] = '0'
    d['Production Flow Rate per Well'] = '55'
    d['Water Loss Fraction'] = '0.02'
    d['Productivity Index'] = '5'
    d['Injectivity Index'] = '6'
    d['Injection Temperature'] = '50'
    d['Reservoir Heat Capacity'] = '1000'
    d['Reservoir Density'] = '2700'
    d['Reservoir Thermal Conductivity'] = '2.7'
    d['Reservoir Volume Option'] = '3'
    d['Reservoir Volume'] = '1e9'
    d['Fracture Shape'] = '3'
    d['Fracture Height'] = '900'
    d['Number of Fractures'] = '20'
    # drawdown strong enough that yearly series vary within a few years
    if res == 1:
        d['Reservoir Volume Option'] = '1'
        d['Fracture Separation'] = '40'
        d['Number of Fractures'] = '30'
        d['Fracture Height'] = '300'
        d.pop('Reservoir Volume')
    elif res == 2:
        d['Reservoir Volume'] = '1.2e8'
        d['Reservoir Porosity'] = '0.1'
    elif res == 3:
        d['Drawdown Parameter'] = '0.00006'
    elif res == 4:
        d['Drawdown Parameter'] = '0.03'
    d['Maximum Drawdown'] = '0.08' if redrill else '1'
    d['End-Use Option'] = str(enduse)
    d['Power Plant Type'] = str(plant)
    d['Circulation Pump Efficiency'] = '0.78'
    d['Utilization Factor'] = '0.88'
    d['End-Use Efficiency Factor'] = '0.83'
    d['Surface Temperature'] = '18'
    d['Ambient Temperature'] = '21'
    if enduse in (41, 42):
        d['CHP Bottoming Entering Temperature'] = '140'
    if enduse in (51, 52):
        d['CHP Fraction'] = '0.4'
    if plant == 5:
        d['Absorption Chiller COP'] = '0.72'
        d['Absorption Chiller Capital Cost'] = '3.74'
        d['Absorption Chiller O&M Cost'] = '0.065'
    if plant == 6:
        d['Heat Pump COP'] = '2.8'
        d['Heat Pump Capital Cost'] = '3.74'
    if plant == 7:
        d['District Heating Demand Option'] = '1'
        d['District Heating Demand File Name'] = demand_csv()
        d['District Heating Demand Data Time Resolution'] = '1'
        d['District Heating Demand Data Column Number'] = '2'
        d['Peaking Fuel Cost Rate'] = '0.0273'
        d['Peaking Boiler Efficiency'] = '0.85'
        d['District Heating Piping Cost Rate'] = '1200'
        d['District Heating Road Length'] = '3'
    d['Plant Lifetime'] = str(L)
    d['Time steps per year'] = str(n)
    d['Construction Years'] = str(cy)
    d['Economic Model'] = str(econ)
    d['Fixed Charge Rate'] = '0.07'
    d['Discount Rate'] = '0.06'
    d['Inflation Rate During Construction'] = '0.04'
    d['Fraction of Investment in Bonds'] = '0.6'
    d['Inflated Bond Interest Rate'] = '0.05'
    d['Inflated Equity Interest Rate'] = '0.1'
    d['Inflation Rate'] = '0.02'
    d['Combined Income Tax Rate'] = '0.3'
    d['Gross Revenue Tax Rate'] = '0.01'
    d['Investment Tax Credit Rate'] = '0'
    d['Property Tax Rate'] = '0.005'
    d['Electricity Rate'] = '0.07'
    d['Heat Rate'] = '0.02'
    d['Starting Electricity Sale Price'] = '0.06'
    d['Ending Electricity Sale Price'] = '0.1'
    d['Electricity Escalation Start Year'] = '2'
    d['Electricity Escalation Rate Per Year'] = '0.012'
    d['Starting Heat Sale Price'] = '0.03'
    d['Ending Heat Sale Price'] = '0.05'
    d['Heat Escalation Start Year'] = '1'
    d['Heat Escalation Rate Per Year'] = '0.005'
    d['Starting Cooling Sale Price'] = '0.065'
    d['Ending Cooling Sale Price'] = '0.07'
    d['Cooling Escalation Start Year'] = '0'
    d['Cooling Escalation Rate Per Year'] = '0.004'
    d['Print Output to Console'] = '0'
    return d


def lines(d) -> list:
    return [f'{k}, {v}' for k, v in d.items()]


def with_(d, **kw):
    raise NotImplementedError


def override(d, changes) -> OrderedDict:
    """changes: dict name -> value string, or None to delete"""
    o = OrderedDict(d)
    for k, v in changes.items():
        if v is None:
            o.pop(k, None)
        else:
            o[k] = str(v)
    return o


def grid(econs=ECON_MODELS, pairs=PAIRS, ress=RES_MODELS, shapes=SHAPES_QUICK, redrills=(False,)):
    for e, (eu, pt), r, s, rd in itertools.product(econs, pairs, ress, shapes, redrills):
        yield {'econ': e, 'enduse': eu, 'plant': pt, 'res': r, 'shape': list(s), 'redrill': rd}


def sbt_base(econ=3, enduse=1, plant=2, shape=(6, 2, 1), config=5) -> OrderedDict:
    """closed-loop (SBT, Reservoir Model 8) family: the geometry of the shipped example_SBT_Lo_T input, coarse accuracy (about 1 s per run
    single-threaded), flow high enough for a non-zero net output; economic model / end-use / plant / shape selectable like base()."""
    L, n, cy = shape
    d = OrderedDict()
    d['Reservoir Model'] = '8'
    d['Reservoir Depth'] = '2.4 kilometer'
    d['Gradient 1'] = '61.25'
    d['Reservoir Volume Option'] = '4'
    d['Reservoir Volume'] = '8136407202.64'
    d['Reservoir Heat Capacity'] = '1112'
    d['Reservoir Density'] = '2663'
    d['Reservoir Thermal Conductivity'] = '2.25'
    d['Lateral Endpoint Depth'] = '2.5 kilometer'
    d['Lateral Inclination Angle'] = '89'
    d['Junction Depth'] = '2.4 kilometer'
    d['Vertical Section Length'] = '2.4 kilometer'
    d['Number of Multilateral Sections'] = '2'
    d['SBT Accuracy Desired'] = '1'
    d['Lateral Spacing'] = '75'
    d['Discretization Length'] = '250'
    d['SBT Initial Timestep Count'] = '5'
    d['SBT Initial to Final Timestep Transition'] = '10000'
    d['SBT Final Timestep Count'] = '60'
    d['Is AGS'] = 'True'
    d['Well Geometry Configuration'] = str(config)
    d['Number of Production Wells'] = '1'
    d['Number of Injection Wells'] = '1'
    d['Production Well Diameter'] = '8.5'
    d['Injection Well Diameter'] = '8'
    d['Nonvertical Wellbore Diameter'] = '0.216'
    d['Production Flow Rate per Well'] = '20'
    d['Reservoir Impedance'] = '1E-4'
    d['Multilaterals Cased'] = 'False'
    # end-use, plant and economics block: the same as the standard family's (so that the closed-loop economics is driven as hard)
    std = base(econ, enduse, plant, 4, shape)
    keys = list(std)
    for k in keys[keys.index('End-Use Option'):]:
        d[k] = std[k]
    d['Ambient Temperature'] = '3'
    d['Surface Temperature'] = '5'
    d['Reservoir Stimulation Capital Cost'] = '0'
    d['Exploration Capital Cost'] = '0'
    d['SBT Generate Wireframe Graphics'] = 'False'
    d['Print Output to Console'] = '0'
    return d


SBT_PAIRS = ((1, 1), (1, 2), (2, 9), (2, 5), (2, 6), (2, 7), (31, 1), (41, 4), (42, 2), (51, 3), (52, 1))


def sbt_grid(econs=ECON_MODELS, pairs=SBT_PAIRS, configs=(1, 5), shapes=((6, 2, 1),)):
    for e, (eu, pt), c, s in itertools.product(econs, pairs, configs, shapes):
        yield {'special': 'sbt', 'econ': e, 'enduse': eu, 'plant': pt, 'config': c, 'shape': list(s)}


def fam_base(f):
    if f.get('special') == 'sbt':
        return sbt_base(f.get('econ', 3), f.get('enduse', 1), f.get('plant', 2), tuple(f.get('shape', (6, 2, 1))), f.get('config', 5))
    return base(f['econ'], f['enduse'], f['plant'], f['res'], tuple(f['shape']), f.get('redrill', False))


def fam_id(f):
    if f.get('special'):
        return '{0}-e{1}-u{2}-p{3}-c{4}-s{5}'.format(f['special'], f.get('econ', 3), f.get('enduse', 1), f.get('plant', 2), f.get('config', 5),
                                                     'x'.join(map(str, f.get('shape', (6, 2, 1)))))
    return 'e{econ}-u{enduse}-p{plant}-r{res}-s{0}x{1}x{2}{3}'.format(*f['shape'], '-rd' if f.get('redrill') else '', **f)
