import argparse
import importlib
import json
import os
import sys
import time

from vf.core import runner, check


def main(argv=None):
    ap = argparse.ArgumentParser()
    ap.add_argument('pid')
    ap.add_argument('--tier', default=os.environ.get('VERIF_TIER', 'quick'), choices=['quick', 'thorough'])
    ap.add_argument('--replay')
    ap.add_argument('--budget', type=float, default=None, help='wall-clock cap in seconds (reported if hit)')
    a = ap.parse_args(argv)
    pid = a.pid.upper()
    mod = importlib.import_module(f'vf.checks.{pid.lower()}')
    seed = check.seed_from_env()
    if a.replay:
        with open(a.replay) as f:
            rp = json.load(f)
        payload = rp['payload']
        bad = 0
        known = check.load_known(pid)
        import fnmatch
        for _, tagged in runner.run_tasks(mod.task, [payload], nproc=1):
            if tagged[0] != 'ok':
                print('INFRASTRUCTURE-ERROR', tagged[1], tagged[2] if len(tagged) > 2 else '', file=sys.stderr)
                return 2
            for fl in tagged[1].get('fails', []):
                if any(fnmatch.fnmatchcase(fl['key'], k['key']) for k in known):
                    print(f"KNOWN-FINDING: property={pid} key={fl['key']} {fl['msg'][:300]}")
                    continue
                print(f"VIOLATION property={pid} replay={a.replay}")
                print(f"  key={fl['key']}: {fl['msg']}")
                bad += 1
            if not tagged[1].get('fails'):
                print(f'replay of {a.replay}: property held')
        return 1 if bad else 0
    return mod.run(a.tier, seed, a.budget)


if __name__ == '__main__':
    sys.exit(main())
