"""
E2 `histx` — explicit-state search over request histories on the real process (DESIGN 3.3).
A state is the history that produced it; build(h) replays h request by request in ONE forked child (live interpreter state
cannot be copied) and records, after every event, the returned result (or exception), cwd / sys.argv before and after, and
the process-state vector.
"""
import gc
import os
import sys


def fd_count():
    try:
        return len(os.listdir('/proc/self/fd'))
    except OSError:
        return -1


def process_state(pristine=None, caller_dir=None):
    """the process-state vector (DESIGN 3.3). Memo tables are reported separately (they are pure caches)."""
    import logging
    import numpy
    st = {}
    tmp = os.environ.get('TMPDIR', '/nonexistent')
    st['cwd'] = os.getcwd().replace(tmp, '<tmp>')
    if caller_dir and os.path.realpath(os.getcwd()) == os.path.realpath(caller_dir):
        st['cwd'] = '<caller>'          # the starting directory itself is an input of the history, not part of the state
    st['argv'] = [('<path>' if os.sep in str(a) else str(a)) for a in sys.argv]
    st['numpy_attrs'] = sorted(set(dir(numpy)) - (pristine or {}).get('_numpy_dir', set())) if pristine else []
    st['root_handlers'] = len(logging.getLogger().handlers)
    st['env'] = sorted(k for k in os.environ if pristine is not None and k not in pristine.get('_env_keys', set()))
    st['caller_dir_files'] = sorted(os.listdir(caller_dir)) if caller_dir and os.path.isdir(caller_dir) else []
    st['stdout_is_original'] = sys.stdout is (pristine or {}).get('_stdout', sys.stdout)
    memo = {}
    try:
        from geophires_x.Units import get_unit_registry
        memo['pint_registry_units'] = len(list(get_unit_registry()._units))     # pint parses/derives units lazily: a cache
    except Exception:  # noqa
        pass
    try:
        import functools
        import geophires_x.GeoPHIRESUtils as U
        for n in dir(U):
            f = getattr(U, n)
            if hasattr(f, 'cache_info'):
                memo[n] = f.cache_info().currsize
        from geophires_x.Reservoir import Reservoir
        if hasattr(Reservoir.Calculate, 'cache_info'):
            memo['Reservoir.Calculate'] = Reservoir.Calculate.cache_info().currsize
    except Exception:  # noqa
        pass
    return st, memo


def pristine_marks():
    import numpy
    return {'_numpy_dir': set(dir(numpy)), '_env_keys': set(os.environ), '_stdout': sys.stdout}


def histories(alphabet, max_len):
    import itertools
    for n in range(1, max_len + 1):
        for h in itertools.product(alphabet, repeat=n):
            yield list(h)
