"""
E2 `histx` — explicit-state search over request histories on the real process (DESIGN 3.3).
A state is the history that produced it; build(h) replays h request by request in ONE forked child (live interpreter state
cannot be copied) and records, after every event, the returned result (or exception), cwd / sys.argv before and after, and
the process-state vector.
"""
import gc
import os
import sys


def fd_count():
    try:
        return len(os.listdir('/proc/self/fd'))
    except OSError:
        return -1


def process_state(pristine=None, caller_dir=None):
    """the process-state vector (DESIGN 3.3). Memo tables are reported separately (they are pure caches)."""
    import logging
    import numpy
    st = {}
    tmp = os.environ.get('TMPDIR', '/nonexistent')
    st['cwd'] = os.getcwd().replace(tmp, '<tmp>')
    if caller_dir and os.path.realpath(os.getcwd()) == os.path.realpath(caller_dir):
        st['cwd'] = '<caller>'          # the starting directory itself is an input of the history, not part of the state
    st['argv'] = [('<path>' if os.sep in str(a) else str(a)) for a in sys.argv]
    st['numpy_attrs'] = sorted(set(dir(numpy)) - (pristine or {}).get('_numpy_dir', set())) if pristine else []
    st['root_handlers'] = len(logging.getLogger().handlers)
    st['env'] = sorted(k for k in os.environ if pristine is not None and k not in pristine.get('_env_keys', set()))
    st['caller_dir_files'] = sorted(os.listdir(caller_dir)) if caller_dir and os.path.isdir(caller_dir) else []
    st['stdout_is_original'] = sys.stdout is (pristine or {}).get('_stdout', sys.stdout)
    # module-level and class-level containers of the library itself (scratch lists, shared default lists, registries): names whose content
    # is no longer what it was in the pristine interpreter. Not a verdict (a memo table would show here too) - it keeps the pruned search from
    # merging histories after which the library holds different data, and the names are listed in the evidence.
    if pristine is not None and '_lib_data' in pristine:
        now = library_data()
        st['lib_data_changed'] = sorted(k for k in set(now) | set(pristine['_lib_data']) if now.get(k) != pristine['_lib_data'].get(k))
    memo = {}
    try:
        from geophires_x.Units import get_unit_registry
        memo['pint_registry_units'] = len(list(get_unit_registry()._units))     # pint parses/derives units lazily: a cache
    except Exception:  # noqa
        pass
    try:
        import functools
        import geophires_x.GeoPHIRESUtils as U
        for n in dir(U):
            f = getattr(U, n)
            if hasattr(f, 'cache_info'):
                memo[n] = f.cache_info().currsize
        from geophires_x.Reservoir import Reservoir
        if hasattr(Reservoir.Calculate, 'cache_info'):
            memo['Reservoir.Calculate'] = Reservoir.Calculate.cache_info().currsize
    except Exception:  # noqa
        pass
    return st, memo


LIB_PREFIXES = ('geophires_x', 'geophires_x_client', 'hip_ra_x', 'hip_ra', 'geophires_monte_carlo', 'geophires_x_schema_generator')


def _digest_container(v, depth=0):
    import hashlib
    try:
        if isinstance(v, dict):
            body = repr(sorted((repr(k), _digest_container(x, depth + 1) if isinstance(x, (list, dict, set)) and depth < 2 else repr(x)[:200]) for k, x in v.items()))
        elif isinstance(v, set):
            body = repr(sorted(repr(x)[:200] for x in v))
        else:
            body = repr([_digest_container(x, depth + 1) if isinstance(x, (list, dict, set)) and depth < 2 else repr(x)[:200] for x in v])
    except Exception as e:  # noqa
        body = f'<unreprable {type(e).__name__}>'
    return hashlib.sha1(body.encode('utf-8', 'replace')).hexdigest()[:12] + f':{len(v)}'


def library_data():
    """{qualified name: digest} of every list / dict / set bound at module level or class level in the library's own modules"""
    import inspect
    out = {}
    for mname, mod in list(sys.modules.items()):
        if mod is None or not mname.startswith(LIB_PREFIXES) or mname.startswith('geophires_x._verif'):
            continue
        for a, v in list(vars(mod).items()):
            if a.startswith('__'):
                continue
            if isinstance(v, (list, dict, set)):
                out[f'{mname}.{a}'] = _digest_container(v)
            elif inspect.isclass(v) and getattr(v, '__module__', None) == mname:
                for ca, cv in list(vars(v).items()):
                    if not ca.startswith('__') and isinstance(cv, (list, dict, set)):
                        out[f'{mname}.{v.__name__}.{ca}'] = _digest_container(cv)
    return out


def pristine_marks():
    import numpy
    return {'_numpy_dir': set(dir(numpy)), '_env_keys': set(os.environ), '_stdout': sys.stdout, '_lib_data': library_data()}


def histories(alphabet, max_len):
    import itertools
    for n in range(1, max_len + 1):
        for h in itertools.product(alphabet, repeat=n):
            yield list(h)
