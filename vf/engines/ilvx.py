"""
E4 `ilvx` — preemption-bounded exhaustive exploration of the interleavings of the Monte-Carlo row-append protocol
(DESIGN 3.5). K virtual workers run the REAL `work_package` (real pylocker.Locker, real files in a scratch directory)
as threads under a baton: exactly one runs at a time, and control changes hands only at the file-system / clock
operations pylocker performs, which are intercepted by rebinding `os`, `time`, `open`, `atexit`, `pid_exists` in the
module object `pylocker.Locker` only. Every operation is then really performed.

Must be used inside a forked child (it rebinds module attributes).
"""
import builtins
import io
import os
import sys
import threading
import time as _real_time
import types

LOCK_TIMEOUT_JUMP = 11.0      # MC uses timeout=10 s


class Horizon(Exception):
    pass


class ReplayDivergence(Exception):
    pass


class _Worker:
    def __init__(self, wid, fn):
        self.wid = wid
        self.fn = fn
        self.sem = threading.Semaphore(0)
        self.done = False
        self.exc = None
        self.pending = None
        self.seen = set()          # signatures of read points since the last file mutation
        self.seen_mut = -1
        self.polling = False
        self.blocking = False      # current pending point is a voluntary yield (sleep)
        self.thread = None
        self.handles = []          # data-file handles opened through the proxy
        self.intended = []         # rows this worker tried to write
        self.returned = False


class Execution:
    def __init__(self, fns, prefix, horizon=3000):
        self.workers = [_Worker(i, f) for i, f in enumerate(fns)]
        self.prefix = list(prefix)
        self.horizon = horizon
        self.ctrl = threading.Semaphore(0)
        self.clock = 1_700_000_000.0
        self.mut = 0
        self.points = []           # (enabled ids in canonical order, running_still_enabled, choice, kind of chosen op)
        self.current = None
        self.tls = threading.local()
        self.clock_jumps = 0
        self.steps = 0
        self.aborted = None

    # ---- called from worker threads -------------------------------------------------------------
    def me(self):
        return self.tls.worker

    def point(self, kind, info, read_sig=None, blocking=False):
        w = self.me()
        w.pending = (kind, info)
        w.blocking = blocking
        if read_sig is not None:
            if w.seen_mut != self.mut:
                w.seen, w.seen_mut = set(), self.mut
            w.polling = read_sig in w.seen
            w.seen.add(read_sig)
        else:
            w.polling = False
        self.ctrl.release()
        w.sem.acquire()
        if self.aborted:
            raise Horizon(self.aborted)

    def mutated(self):
        self.mut += 1

    def now(self):
        self.clock += 1e-6
        return self.clock

    def _body(self, w):
        self.tls.worker = w
        w.sem.acquire()            # wait for the first turn
        try:
            if not self.aborted:
                w.fn()
                w.returned = True
        except Horizon:
            pass
        except BaseException as e:  # noqa
            w.exc = f'{type(e).__name__}: {e}'
        finally:
            w.done = True
            self.ctrl.release()

    # ---- controller ---------------------------------------------------------------------------------
    def run(self):
        for w in self.workers:
            w.thread = threading.Thread(target=self._body, args=(w,), daemon=True)
            w.pending = ('start', None)
            w.thread.start()
        i = 0
        while True:
            live = [w for w in self.workers if not w.done]
            if not live:
                break
            enabled = [w for w in live if not (w.polling and w.seen_mut == self.mut)]
            if not enabled:
                # only pollers left: real time would run into pylocker's timeout
                self.clock += LOCK_TIMEOUT_JUMP
                self.clock_jumps += 1
                for w in live:
                    w.polling = False
                    w.seen = set()
                enabled = live
                if self.clock_jumps > 40:
                    self.aborted = 'livelock: pollers never make progress'
            cur = self.current
            cur_enabled = cur is not None and cur in enabled
            order = ([cur] if cur_enabled else []) + [w for w in enabled if w is not cur]
            voluntary = cur_enabled and cur.blocking
            choice = self.prefix[i] if i < len(self.prefix) else 0
            if choice >= len(order):
                raise ReplayDivergence(f'choice {choice} at point {i} but only {len(order)} enabled')
            chosen = order[choice]
            self.points.append(([w.wid for w in order], bool(cur_enabled and not voluntary), choice, chosen.pending[0]))
            i += 1
            self.steps += 1
            if self.steps > self.horizon and not self.aborted:
                self.aborted = f'horizon of {self.horizon} scheduling steps exceeded'
            if self.aborted:
                for w in live:
                    w.sem.release()
                for w in live:
                    w.thread.join(timeout=10)
                break
            self.current = chosen
            chosen.sem.release()
            self.ctrl.acquire()
        return self


# ----------------------------------------------------------------------------------------------------- proxies
class _DataFile:
    """wraps the real append handle of the shared result file; the real write(2) happens at flush/close."""

    def __init__(self, ex, real, path):
        self._ex, self._f, self._path = ex, real, path
        self._pending = False

    def write(self, s):
        self._ex.me().intended.append(s)
        self._pending = True
        return self._f.write(s)

    def flush(self):
        if self._pending and not self._f.closed:
            self._ex.point('flush', self._path)
            self._f.flush()
            self._pending = False
            self._ex.mutated()
        else:
            self._f.flush()

    def fileno(self):
        return self._f.fileno()

    @property
    def closed(self):
        return self._f.closed

    def close(self):
        if self._pending and not self._f.closed:
            self._ex.point('flush', self._path)
            self._f.close()
            self._pending = False
            self._ex.mutated()
        else:
            self._f.close()

    def abandon(self):
        """process exit through os._exit: the descriptor goes away, buffered data is never written."""
        if not self._f.closed:
            dn = os.open(os.devnull, os.O_WRONLY)
            os.dup2(dn, self._f.fileno())
            os.close(dn)
            lost = self._pending
            try:
                self._f.close()
            except Exception:  # noqa
                pass
            return lost
        return False

    def __enter__(self):
        return self

    def __exit__(self, *a):
        self.close()


def install(ex, shared_paths):
    """rebind names in pylocker.Locker; returns an undo function."""
    import pylocker  # noqa
    PL = sys.modules['pylocker.Locker']      # the module object (pylocker.Locker the attribute is the class)
    assert isinstance(PL, types.ModuleType)
    shared = set(os.path.realpath(p) for p in shared_paths)

    def is_shared(p):
        return os.path.realpath(str(p)) in shared

    def sig():
        f = sys._getframe(2)
        return (f.f_code.co_name, f.f_lasti)

    class PathProxy:
        def __getattr__(self, name):
            return getattr(os.path, name)

        def isfile(self, p):
            if is_shared(p):
                ex.point('isfile', p, read_sig=sig())
            return os.path.isfile(p)

    class OsProxy:
        path = PathProxy()
        name = os.name

        def __getattr__(self, name):
            return getattr(os, name)

        def getpid(self):
            return 10000 + ex.me().wid

        def rename(self, a, b):
            if is_shared(b) or is_shared(a):
                ex.point('rename', b)
                os.rename(a, b)
                ex.mutated()
            else:
                os.rename(a, b)

        def fsync(self, fd):
            return None

    class TimeProxy:
        def __getattr__(self, name):
            return getattr(_real_time, name)

        def time(self):
            return ex.now()

        def sleep(self, s):
            ex.clock += max(float(s), 0.0)
            ex.point('sleep', s, blocking=True)

    class AtexitProxy:
        kept = []

        def register(self, fn, *a, **k):
            AtexitProxy.kept.append(fn)      # the real atexit keeps the bound method (and so the Locker) alive
            return fn

    def open_proxy(path, mode='r', *a, **k):
        if not is_shared(path):
            return builtins.open(path, mode, *a, **k)
        if 'r' in mode and '+' not in mode:
            ex.point('open_read', path, read_sig=sig())
            with builtins.open(path, mode, *a, **k) as f:
                data = f.read()
            return io.BytesIO(data) if 'b' in mode else io.StringIO(data)
        if 'w' in mode:
            ex.point('open_truncate', path)
            f = builtins.open(path, mode, *a, **k)
            ex.mutated()
            return f
        # append to the shared data file
        ex.point('open_append', path)
        df = _DataFile(ex, builtins.open(path, mode, *a, **k), path)
        ex.me().handles.append(df)
        return df

    saved = {n: PL.__dict__.get(n, None) for n in ('os', 'time', 'open', 'atexit', 'pid_exists')}
    had_open = 'open' in PL.__dict__
    PL.os, PL.time, PL.atexit = OsProxy(), TimeProxy(), AtexitProxy()
    PL.open = open_proxy
    PL.pid_exists = lambda pid: True

    def undo():
        for n, v in saved.items():
            if n == 'open' and not had_open:
                delattr(PL, 'open')
            else:
                setattr(PL, n, v)
    return undo


# ----------------------------------------------------------------------------------------------------- search
def preemptions_before(points, i):
    return sum(1 for (order, still, choice, _k) in points[:i] if still and choice != 0)


def explore(run_one, bound, on_execution, max_execs=None, root=None, root_only=False):
    """
    DFS over choice prefixes, preemption-bounded. run_one(prefix) -> Execution (completed).
    Returns number of executions; complete unless max_execs was hit (returned as second value).
    """
    count = 0
    capped = False
    stack = [list(root or [])]
    while stack:
        prefix = stack.pop()
        ex = run_one(prefix)
        count += 1
        on_execution(prefix, ex)
        if max_execs and count >= max_execs:
            capped = bool(stack)
            break
        pts = ex.points
        if root_only:
            break
        for i in range(len(pts) - 1, len(prefix) - 1, -1):
            order, still, _choice, _k = pts[i]
            base_cost = preemptions_before(pts, i)
            for alt in range(1, len(order)):
                cost = base_cost + (1 if still else 0)
                if cost > bound:
                    continue
                stack.append([p[2] for p in pts[:i]] + [alt])
    return count, capped
