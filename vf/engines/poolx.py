"""
E3 `poolx` — a fork-faithful controlled replacement for concurrent.futures.ProcessPoolExecutor (DESIGN 3.4).

At the first submit it really os.fork()s W children from the calling process (so each inherits exactly what a real
pool worker inherits); children run "read task ordinal -> call the real function -> report outcome" and leave through
os._exit without atexit handlers, like multiprocessing's fork children. The parent dispatches the K tasks one at a
time following an ASSIGNMENT chosen by the explorer (task i -> worker assignment[i]); tasks of one worker run in
submission order. Workers are indistinguishable at fork time, so assignments are enumerated up to renaming:
restricted-growth strings (set partitions of the task set into at most W blocks).
"""
import os
import pickle
import struct
import sys
import traceback

CURRENT = {'assignment': None, 'task_ordinal': None, 'log': None}


def set_partitions(K, W):
    """all restricted-growth strings of length K with at most W distinct values."""
    out = []

    def rec(prefix, m):
        if len(prefix) == K:
            out.append(list(prefix))
            return
        for v in range(min(m + 1, W - 1) + 1):
            rec(prefix + [v], max(m, v))
    rec([0], 0) if K > 0 else out.append([])
    return out


def _send(fd, obj):
    data = pickle.dumps(obj)
    os.write(fd, struct.pack('<I', len(data)) + data)


def _recv(fd):
    hdr = b''
    while len(hdr) < 4:
        b = os.read(fd, 4 - len(hdr))
        if not b:
            return None
        hdr += b
    n = struct.unpack('<I', hdr)[0]
    data = b''
    while len(data) < n:
        b = os.read(fd, n - len(data))
        if not b:
            return None
        data += b
    return pickle.loads(data)


class ControlledPool:
    def __init__(self, *a, **k):
        self.children = []
        self.outcomes = []

    def __enter__(self):
        return self

    def __exit__(self, *a):
        self.shutdown()
        return False

    def _fork_workers(self, W, fn, tasks, child_hook=None):
        for wid in range(W):
            p2c_r, p2c_w = os.pipe()
            c2p_r, c2p_w = os.pipe()
            pid = os.fork()
            if pid == 0:
                code = 0
                try:
                    os.close(p2c_w)
                    os.close(c2p_r)
                    for (_pid, w, r) in self.children:     # descriptors of earlier siblings
                        try:
                            os.close(w)
                            os.close(r)
                        except OSError:
                            pass
                    while True:
                        msg = _recv(p2c_r)
                        if msg is None or msg == 'stop':
                            break
                        # one work item of the real pool = one chunk: `[fn(x) for x in chunk]` - the first exception aborts the
                        # rest of the chunk (concurrent.futures.process._process_chunk)
                        replies = []
                        aborted = None
                        for ordinal in msg:
                            if aborted is not None:
                                replies.append((ordinal, wid, ('skipped', f'chunk aborted by iteration {aborted}'), []))
                                continue
                            CURRENT['task_ordinal'] = ordinal
                            CURRENT['log'] = []
                            try:
                                fn(tasks[ordinal])
                                res = ('ok', None)
                            except BaseException as e:  # noqa  (the real pool worker also catches BaseException)
                                res = ('exc', f'{type(e).__name__}: {e}')
                                aborted = ordinal
                            replies.append((ordinal, wid, res, CURRENT['log']))
                        try:
                            sys.stdout.flush()
                        except Exception:  # noqa
                            pass
                        _send(c2p_w, replies)
                except BaseException:  # noqa
                    code = 1
                    try:
                        traceback.print_exc()
                    except Exception:  # noqa
                        pass
                finally:
                    os._exit(code)
            os.close(p2c_r)
            os.close(c2p_w)
            self.children.append((pid, p2c_w, c2p_r))

    def map(self, fn, iterable, timeout=None, chunksize=1):
        tasks = list(iterable)
        K = len(tasks)
        if chunksize < 1:
            raise ValueError('chunksize must be >= 1.')
        chunks = [list(range(i, min(i + chunksize, K))) for i in range(0, K, chunksize)]
        CURRENT['chunks'] = chunks
        assignment = CURRENT['assignment']
        if isinstance(assignment, dict):      # one assignment per possible number of work items (the driver decides the chunking)
            assignment = assignment.get(str(len(chunks)))
        if assignment is None:
            assignment = [0] * len(chunks)
        CURRENT['assignment_used'] = list(assignment)
        if len(assignment) != len(chunks):
            raise RuntimeError(f'assignment has {len(assignment)} entries for {len(chunks)} work items ({K} tasks, chunksize {chunksize})')
        W = (max(assignment) + 1) if chunks else 0
        try:
            sys.stdout.flush()
        except Exception:  # noqa
            pass
        self._fork_workers(W, fn, tasks)
        for ci, chunk in enumerate(chunks):
            pid, w, r = self.children[assignment[ci]]
            _send(w, chunk)
            reply = _recv(r)
            if reply is None:
                self.outcomes.extend((i, assignment[ci], ('died', 'worker died'), []) for i in chunk)
            else:
                self.outcomes.extend(reply)
        CURRENT['outcomes'] = self.outcomes
        return iter([None] * K)

    def submit(self, fn, *a, **k):
        raise NotImplementedError('the Monte-Carlo driver uses map()')

    def shutdown(self, *a, **k):
        for pid, w, r in self.children:
            try:
                _send(w, 'stop')
            except OSError:
                pass
        for pid, w, r in self.children:
            try:
                os.waitpid(pid, 0)
            except ChildProcessError:
                pass
            for fd in (w, r):
                try:
                    os.close(fd)
                except OSError:
                    pass
        self.children = []
