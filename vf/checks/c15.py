"""C15 — pumping power and modelled pressures stay physical (E1 unary + function-level friction sweep at the hook)."""
import math
import sys

import numpy as np

from vf.core import e1, mv
from vf.core.mv import V, A
from vf import families as F
from vf.checks import econ_common as EC

PID = 'C15'

DIAM_IN = [1.0, 2.0, 2.01, 4.0, 7.0, 8.5, 12.0, 30.0]
FLOWS = [0.002, 0.02, 0.05, 0.2, 1.0, 50.0, 500.0]     # spans the laminar/turbulent switch for these diameters


def monitor(m, payload):
    fails = []
    wb, sp, ec, rs = m.wellbores, m.surfaceplant, m.economics, m.reserv
    inp = EC.input_dict(payload)
    L = int(V(sp, 'plant_lifetime'))
    n = int(V(ec, 'timestepsperyear'))
    N = L * n
    P = A(wb, 'PumpingPower')
    neg = np.where(P < 0)[0]
    if neg.size:
        fails.append(('pumping/negative', f'pumping power {P[neg[0]]!r} MW at step {int(neg[0])}'))
    imp = bool(V(wb, 'impedancemodelused'))
    pumped = bool(V(wb, 'productionwellpumping'))
    if not imp:
        Pp, Pi = A(wb, 'PumpingPowerProd'), A(wb, 'PumpingPowerInj')
        if pumped:
            if Pp.shape == P.shape and Pi.shape == P.shape:
                i = mv.first_mismatch(P, Pp + Pi, 1e-12, 1e-15)
                if i is not None:
                    fails.append(('pumping/sum', f'total pumping power {P[i]!r} != production {Pp[i]!r} + injection {Pi[i]!r} at step {i}'))
            else:
                fails.append(('pumping/shape', f'pumping series shapes {P.shape} {Pp.shape} {Pi.shape}'))
            if np.any(Pp < 0) or np.any(Pi < 0):
                fails.append(('pumping/component_negative', 'negative production or injection pumping power'))
    # overpressure
    op = float(inp['Overpressure Percentage']) if 'Overpressure Percentage' in inp else None
    pres = np.atleast_1d(np.asarray(V(wb, 'production_reservoir_pressure'), dtype=float))
    if op is not None and op >= 100.0:
        rate = float(inp.get('Overpressure Depletion Rate', 0.0))
        if pres.size != N:
            fails.append(('pressure/length', f'reservoir pressure series has {pres.size} entries, expected {N}'))
        else:
            P0 = pres[0]
            Ph = P0 / (op / 100.0)
            if 'Reservoir Hydrostatic Pressure' in inp:
                Pu = float(inp['Reservoir Hydrostatic Pressure'])
                if not mv.close(P0, op / 100.0 * Pu, 1e-9, 1e-9):
                    fails.append(('pressure/initial', f'initial reservoir pressure {P0!r}, expected {op}% of hydrostatic {Pu} = {op / 100.0 * Pu!r}'))
            if op == 100.0:
                exp = [P0] * N
            else:
                steps = int((100.0 / rate) * n)
                d = (P0 - Ph) / steps
                exp = [max(Ph, P0 - k * d) for k in range(N)]
            i = mv.first_mismatch(pres, exp, 1e-9, 1e-9)
            if i is not None:
                fails.append(('pressure/depletion', f'reservoir pressure step {i}: {pres[i]!r}, expected {exp[i]!r} (P0={P0!r}, hydrostatic={Ph!r}, rate={rate} %/yr, n={n})'))
            if np.any(np.diff(pres) > 1e-9):
                fails.append(('pressure/not_monotone', f'reservoir pressure rises: {list(pres[:6])}'))
            if np.any(pres < Ph * (1 - 1e-12) - 1e-9):
                fails.append(('pressure/below_hydrostatic', f'reservoir pressure {pres.min()!r} below hydrostatic {Ph!r}'))
        pin = np.atleast_1d(np.asarray(V(wb, 'injection_reservoir_pressure'), dtype=float))
        irate = float(inp.get('Injection Reservoir Inflation Rate', 1000.0))
        if pin.size == N:
            exp = [pin[0] + k * irate / n for k in range(N)]
            i = mv.first_mismatch(pin, exp, 1e-9, 1e-9)
            if i is not None:
                fails.append(('pressure/injection_inflation', f'injection reservoir pressure step {i}: {pin[i]!r}, expected {exp[i]!r} (rate {irate} kPa/yr, n={n})'))
        else:
            fails.append(('pressure/injection_length', f'injection reservoir pressure has {pin.size} entries, expected {N}'))
    # friction: real WellPressureDrop on the live model, ordered diameters, both flow regimes
    from geophires_x import WellBores as WB
    Tavg = np.asarray(A(rs, 'Tresoutput'), dtype=float) - np.asarray(V(wb, 'ProdTempDrop'), dtype=float) / 4.0
    depth_m = float(rs.depth.quantity().to('m').magnitude)
    regimes = set()
    for q in FLOWS:
        prev = None
        for din in DIAM_IN:
            d = din * 0.0254
            DP, f3, v, rho = WB.WellPressureDrop(m, Tavg, q, d, True, depth_m)
            DP = np.asarray(DP, dtype=float)
            Re = 4.0 * q / (2e-4 * math.pi * d)
            regimes.add('laminar' if float(np.average(64.0 / np.asarray(f3))) < 2300 and np.allclose(np.asarray(f3) * (64.0 / np.asarray(f3)), 64.0) and float(np.average(f3)) > 64.0 / 2300 else 'turbulent')
            if prev is not None:
                worse = np.where(DP > prev[1] * (1 + 1e-9) + 1e-15)[0]
                if worse.size:
                    fails.append(('friction/not_monotone', f'flow {q} kg/s: friction loss {DP[worse[0]]!r} kPa at diameter {din} in exceeds {prev[1][worse[0]]!r} kPa at {prev[0]} in (step {int(worse[0])})'))
                    break
            prev = (din, DP)
    state = [type(sp).__name__, imp, pumped, op, N, [round(float(x), 9) for x in P[:3]], [round(float(x), 6) for x in pres[:3]]]
    return {'fails': fails, 'state': state, 'nontrivial': bool(P.max() > 0),
            'counters': {'overpressure_runs': int(op is not None and op >= 100), 'impedance_runs': int(imp), 'self_flowing_runs': int(not pumped)},
            'sets': {'friction_regimes': sorted(regimes)},
            'sample': {'family': payload.get('fam'), 'changes': payload.get('changes'), 'PumpingPower_head': [float(x) for x in P[:3]],
                       'pressure_head': [float(x) for x in pres[:3]]}}


def task(payload):
    return e1.unary_task(payload, monitor, want=())


IMPED = {'Productivity Index': None, 'Injectivity Index': None}


def split(depth, rate, temp='90'):
    return {'Injection Reservoir Depth': depth, 'Injection Reservoir Inflation Rate': rate, 'Injection Reservoir Temperature': temp}


def plan(tier, seed):
    P = []
    shapes = [(5, 3, 2), (3, 1, 1)] if tier == 'quick' else [(5, 3, 2), (3, 1, 1), (2, 4, 3), (30, 1, 1), (12, 2, 1)]
    pairs = F.PAIRS if tier == 'thorough' else ((1, 1), (1, 3), (1, 4), (2, 9), (2, 6), (2, 7), (31, 2), (32, 3), (41, 4), (42, 1), (51, 3), (52, 2))
    for pair in pairs:
        for r in ((4,) if tier == 'quick' else (3, 4)):
            for s in shapes:
                fam = {'econ': 1, 'enduse': pair[0], 'plant': pair[1], 'res': r, 'shape': list(s)}
                P.append({'fam': fam, 'changes': {}, 'base': True})
                hyd = [{}]
                for z in ('0.0001', '0.1', '10000'):
                    c = dict(IMPED)
                    c['Reservoir Impedance'] = z
                    hyd.append(c)
                for pi in ('0.1', '10', '10000'):
                    for ii in ('0.1', '10000'):
                        hyd.append({'Productivity Index': pi, 'Injectivity Index': ii})
                for h in hyd:
                    for extra in ({}, {'Production Well Diameter': '2.01', 'Injection Well Diameter': '30'},
                                  {'Production Well Diameter': '30', 'Injection Well Diameter': '2.01'},
                                  {'Production Flow Rate per Well': '1'}, {'Production Flow Rate per Well': '500'},
                                  {'Reservoir Hydrostatic Pressure': '100'}, {'Reservoir Hydrostatic Pressure': '100000'},
                                  {'Production Wellhead Pressure': '10000'}, {'Plant Outlet Pressure': '5000'},
                                  {'Circulation Pump Efficiency': '0.1'}, {'Water Loss Fraction': '0.5'}):
                        if tuple(s) != (5, 3, 2) and extra:
                            continue
                        c = dict(h)
                        c.update(extra)
                        if c:
                            P.append({'fam': fam, 'changes': c})
                # overpressure
                for op in ('100', '100.1', '150', '1000'):
                    for rate in ('0.1', '5', '100', '3', '40', '62.5'):
                        for sp_ in (split('1000', '0'), split('1000', '10'), split('2500', '1000')):
                            for hp in ({}, {'Reservoir Hydrostatic Pressure': '25000'}):
                                if tuple(s) != (5, 3, 2) and (hp or rate != '5'):
                                    continue
                                c = {'Overpressure Percentage': op, 'Overpressure Depletion Rate': rate}
                                c.update(sp_)
                                c.update(hp)
                                P.append({'fam': fam, 'changes': c})
    return P


def run(tier, seed, budget=None):
    return e1.run_generic(
        sys.modules[__name__], PID, tier, seed, budget,
        rule=('end-use/plant pairs (pumped ORC and self-flowing flash, heat plants, cogeneration) x shapes x hydraulic model '
              '{PI/II with PI,II in {0.1,10,10000}; impedance {1e-4,0.1,1e4}} x diameter/flow/pressure deviations; overpressure '
              '{100,100.1,150,1000 %} x depletion {0.1,3,5,40,62.5,100 %/yr} (100/rate integer and non-integer) x split injection reservoir {inflation 0,10,1000 kPa/yr} x '
              'user/built-in hydrostatic pressure; at every hook the real friction routine is swept over 8 ordered diameters x 7 flows '
              '(laminar and turbulent). Non-trivial = some pumping power > 0'),
        assumptions=['hydrostatic pressure under the built-in correlation is inferred as initial pressure / overpressure fraction',
                     'friction monotonicity is evaluated by calling the real WellPressureDrop with the live model (function level)'])
