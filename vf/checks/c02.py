"""C02 — energy flows balance at every time step and over every year (E1, unary monitor at the hook)."""
import numpy as np

from vf.core import e1, mv
from vf.core.mv import V, A, AdapterError
from vf import families as F
from vf.oracles import energy_ref as ER

PID = 'C02'
RT = 1e-10


def _cmp(fails, key, got, exp, what, rt=RT):
    i = mv.first_mismatch(got, exp, rt, 1e-12)
    if i is not None:
        g = np.asarray(got, dtype=float).ravel()
        e = np.asarray(exp, dtype=float).ravel()
        if i == -1:
            fails.append((key + '/shape', f'{what}: length {g.size} expected {e.size}'))
        else:
            fails.append((key, f'{what}: index {i}: got {g[i]!r} expected {e[i]!r}'))


def monitor(m, payload):
    fails = []
    sp, wb, rs, ec = m.surfaceplant, m.wellbores, m.reserv, m.economics
    L = int(V(sp, 'plant_lifetime'))
    n = int(V(ec, 'timestepsperyear'))
    N = n * L
    eu = mv.enum_int(V(sp, 'enduse_option'))
    pt = mv.enum_int(V(sp, 'plant_type'))
    cls = type(sp).__name__
    Tprod = A(wb, 'ProducedTemperature')
    Tinj = float(V(wb, 'Tinj'))
    nprod = float(V(wb, 'nprod'))
    q = float(V(wb, 'prodwellflowrate'))
    cp = float(V(rs, 'cpwater'))
    eta = float(V(sp, 'enduse_efficiency_factor'))
    util = float(V(sp, 'utilization_factor'))
    HE = A(sp, 'HeatExtracted')
    Pump = A(wb, 'PumpingPower')
    if Tprod.size != N:
        fails.append(('len/Tprod', f'produced temperature has {Tprod.size} points, expected steps*lifetime={N}'))
    # (1) heat extracted
    _cmp(fails, 'step/heat_extracted', HE, nprod * q * cp * (Tprod - Tinj) / 1e6, 'HeatExtracted = n*q*cp*(Tprod-Tinj)')
    has_elec = eu != 2
    heat_like = eu != 1
    util_y = util
    nontrivial = bool(np.ptp(HE) > 1e-9)
    if has_elec:
        El = A(sp, 'ElectricityProduced')
        Net = A(sp, 'NetElectricityProduced')
        _cmp(fails, 'step/net_electricity', Net, El - Pump, 'Net = Gross - Pumping')
        FLE = A(sp, 'FirstLawEfficiency')
        with np.errstate(all='ignore'):
            HETE = Net / FLE   # heat directed to the power cycle, as implied by the reported first-law efficiency
        ok = np.isfinite(HETE) & (np.abs(FLE) > 1e-12)
        HP = A(sp, 'HeatProduced') if eu != 1 else None
        if eu == 1:
            _cmp(fails, 'step/elec/heat_to_power', HETE[ok], HE[ok], 'all extracted heat goes to the power cycle', 1e-9)
        elif eu in (31, 32):
            _cmp(fails, 'step/topping/balance', (HP / eta + HETE)[ok], HE[ok],
                 'topping: HeatProduced/eta + heat to power cycle = HeatExtracted', 1e-9)
            if np.any(HP < -1e-9):
                pass
        elif eu in (41, 42):
            Tb = float(V(sp, 'T_chp_bottom'))
            _cmp(fails, 'step/bottoming/heat', HP, eta * nprod * q * cp * (Tprod - Tb) / 1e6,
                 'bottoming: HeatProduced = eta*n*q*cp*(Tprod - Tchp)')
            _cmp(fails, 'step/bottoming/power_heat', HETE[ok], (nprod * q * cp * (Tb - Tinj) / 1e6 * np.ones(N))[ok],
                 'bottoming: heat to power cycle = n*q*cp*(Tchp - Tinj)', 1e-9)
        elif eu in (51, 52):
            f = float(V(sp, 'chp_fraction'))
            _cmp(fails, 'step/parallel/heat', HP, eta * f * HE, 'parallel: HeatProduced = eta*f*HeatExtracted')
            _cmp(fails, 'step/parallel/power_heat', HETE[ok], ((1 - f) * HE)[ok],
                 'parallel: heat to power cycle = (1-f)*HeatExtracted', 1e-9)
        _cmp(fails, 'year/total_kwh', A(sp, 'TotalkWhProduced'), ER.annual(El, L, n, util), 'TotalkWhProduced')
        _cmp(fails, 'year/net_kwh', A(sp, 'NetkWhProduced'), ER.annual(Net, L, n, util), 'NetkWhProduced')
        if heat_like:
            _cmp(fails, 'year/heat_kwh', A(sp, 'HeatkWhProduced'), ER.annual(HP, L, n, util), 'HeatkWhProduced')
    else:
        HP = A(sp, 'HeatProduced')
        if cls == 'SurfacePlantHeatPump':
            cop = float(V(sp, 'heat_pump_cop'))
            _cmp(fails, 'step/heatpump/heat', HP, HE * cop / (cop - 1) * eta, 'heat pump: HeatProduced = HE*COP/(COP-1)*eta')
            hpe = A(sp, 'heat_pump_electricity_used')
            _cmp(fails, 'step/heatpump/electricity', hpe, HE / (cop - 1), 'heat pump electricity = HE/(COP-1)')
            _cmp(fails, 'year/heatpump_kwh', A(sp, 'heat_pump_electricity_kwh_used'), ER.annual(hpe, L, n, util),
                 'heat_pump_electricity_kwh_used')
        elif cls == 'SurfacePlantAbsorptionChiller':
            cop = float(V(sp, 'absorption_chiller_cop'))
            _cmp(fails, 'step/chiller/heat', HP, HE, 'chiller: heat delivered to chiller = HeatExtracted')
            cool = A(sp, 'cooling_produced')
            _cmp(fails, 'step/chiller/cooling', cool, HE * cop * eta, 'cooling = heat*COP*eta')
            _cmp(fails, 'year/cooling_kwh', A(sp, 'cooling_kWh_Produced'), ER.annual(cool, L, n, util),
                 'cooling_kWh_Produced')
        elif cls == 'SurfacePlantDistrictHeating':
            _cmp(fails, 'step/dh/heat', HP, HE * eta, 'district heating: HeatProduced = HE*eta')
            demand = A(sp, 'daily_heating_demand')       # MWh/day
            geo = A(sp, 'dh_geothermal_heating')         # MW, per day of project
            ng = A(sp, 'dh_natural_gas_heating')         # MW
            if demand.size != 365 or geo.size != 365 * L or ng.size != 365 * L:
                fails.append(('dh/len', f'demand {demand.size}, geothermal {geo.size}, peaking {ng.size} for L={L}'))
            else:
                dem = np.tile(demand / 24.0, L)
                _cmp(fails, 'dh/supply_equals_demand', geo + ng, dem, 'geothermal + peaking = demand (every day)', 1e-9)
                xp = [k / n for k in range(len(HP))]
                avail = np.array([ER.interp(i + j / 365.0, xp, list(HP)) for i in range(L) for j in range(365)])
                over = np.where(geo > avail + 1e-9 * np.abs(avail) + 1e-12)[0]
                if over.size:
                    fails.append(('dh/geothermal_exceeds_supply',
                                  f'day {int(over[0])}: geothermal {geo[over[0]]} > available {avail[over[0]]}'))
                ua = np.array([geo[i * 365:(i + 1) * 365].sum() / avail[i * 365:(i + 1) * 365].sum() for i in range(L)])
                _cmp(fails, 'dh/util_factor_array', A(sp, 'util_factor_array'), ua, 'yearly utilisation = used/available', 1e-9)
                _cmp(fails, 'dh/annual_ng_demand', A(sp, 'annual_ng_demand'),
                     [ng[i * 365:(i + 1) * 365].sum() * 24 for i in range(L)], 'annual peaking demand', 1e-9)
                _cmp(fails, 'dh/annual_heating_demand', [float(V(sp, 'annual_heating_demand'))], [demand.sum() / 1000.0],
                     'annual heating demand', 1e-9)
            util_y = A(sp, 'util_factor_array')
        elif cls == 'SurfacePlantIndustrialHeat':
            _cmp(fails, 'step/direct/heat', HP, HE * eta, 'direct use: HeatProduced = HE*eta')
        else:
            raise AdapterError(f'unmodelled heat plant class {cls}')
        _cmp(fails, 'year/heat_kwh', A(sp, 'HeatkWhProduced'), ER.annual(HP, L, n, util_y), 'HeatkWhProduced')
    HkE = A(sp, 'HeatkWhExtracted')
    _cmp(fails, 'year/heat_extracted_kwh', HkE, ER.annual(HE, L, n, util_y), 'HeatkWhExtracted')
    _cmp(fails, 'year/pumping_kwh', A(sp, 'PumpingkWh'), ER.annual(Pump, L, n, util_y), 'PumpingkWh')
    _cmp(fails, 'year/remaining_heat', A(sp, 'RemainingReservoirHeatContent'),
         ER.remaining_heat(float(V(rs, 'InitialReservoirHeatContent')), HkE), 'RemainingReservoirHeatContent', 1e-9)
    for nm in ('HeatkWhExtracted', 'PumpingkWh'):
        if A(sp, nm).size != L:
            fails.append(('len/' + nm, f'{nm} has {A(sp, nm).size} entries, expected lifetime {L}'))
    state = [cls, type(rs).__name__, eu, pt, L, n, [round(float(x), 9) for x in HkE], [round(float(x), 9) for x in Pump[:3]]]
    return {'fails': fails, 'state': state, 'nontrivial': nontrivial,
            'sample': {'family': payload.get('fam'), 'changes': payload.get('changes'),
                       'HeatkWhExtracted': [float(x) for x in HkE[:3]]}}


def task(payload):
    return e1.unary_task(payload, monitor, want=())


def alphabets(fam):
    eu, pt = fam['enduse'], fam['plant']
    a = {
        'Utilization Factor': ['0.1', '1', '0.5'],
        'End-Use Efficiency Factor': ['0.1', '1', '0.5'],
        'Number of Production Wells': ['1', '5'],
        'Production Flow Rate per Well': ['10', '120'],
        'Injection Temperature': ['30', '80'],
        'Ambient Temperature': ['5', '14.9', '15', '30'],
        'Water Loss Fraction': ['0', '0.2'],
        'Injection Wellbore Temperature Gain': ['3'],
        'Circulation Pump Efficiency': ['0.3', '1'],
    }
    if eu in (51, 52):
        a['CHP Fraction'] = ['0.0001', '0.9999', '0.7']
    if eu in (41, 42):
        a['CHP Bottoming Entering Temperature'] = ['100', '175']
    if pt == 6:
        a['Heat Pump COP'] = ['1.5', '5']
    if pt == 5:
        a['Absorption Chiller COP'] = ['0.1', '1.5']
    return a


STRUCT = [  # multi-parameter structural deviations (one deviation each)
    {'Ramey Production Wellbore Model': '0', 'Production Wellbore Temperature Drop': '5'},
    {'Productivity Index': None, 'Injectivity Index': None, 'Reservoir Impedance': '0.1'},
    {'Maximum Drawdown': '0.05'},
]


def plan(tier, seed):
    P = []
    if tier == 'quick':
        shapes_all = F.SHAPES_QUICK
        dev_shapes = [(5, 3, 2)]
        extra_shapes = [(1, 2, 1), (4, 2, 1), (3, 12, 1)]
    else:
        shapes_all = F.SHAPES_QUICK + F.SHAPES_MORE + ((2, 1, 1), (3, 2, 1), (3, 3, 1), (100, 1, 1), (40, 4, 2))
        dev_shapes = [(5, 3, 2), (3, 1, 1), (4, 2, 1)]
        extra_shapes = []
    k = 0
    for pair in F.PAIRS:
        for r in F.RES_MODELS:
            for s in tuple(shapes_all) + tuple(extra_shapes):
                if r in (1, 2) and s[0] * s[1] > 90:
                    continue  # Laplace-inversion models: long series cost seconds; covered by models 3/4
                k += 1
                fam = {'econ': 1 + k % 3, 'enduse': pair[0], 'plant': pair[1], 'res': r, 'shape': list(s)}
                P.append({'fam': fam, 'changes': {}, 'base': True})
                if tuple(s) in dev_shapes:
                    al = alphabets(fam)
                    for ch in e1.deviations(al, 1):
                        P.append({'fam': fam, 'changes': ch})
                    for ch in STRUCT:
                        P.append({'fam': fam, 'changes': ch})
                    if pair[1] == 7:
                        # demand computed from an hourly temperature series (heating degree days) instead of read from a demand file; the shipped
                        # hourly series serves as the temperature column (7..82: some days below 18.3 degC, most above)
                        for div in ('1', '5', '9'):
                            P.append({'fam': fam, 'changes': {'District Heating Demand Option': '2', 'Temperature File Name': F.demand_csv(),
                                                              'Temperature Data Column Number': '2', 'Number of Housing Units': '12000',
                                                              'Constant Anchor Demand': '3' if div != '5' else '0', 'US Census Division': div}})
                        P.append({'fam': fam, 'changes': {'District Heating Demand Data Time Resolution': '2', 'District Heating Demand File Name': F.daily_demand_csv()}})
                        # an hourly file that covers a leap year (8784 hours): the simulated year has 365 days on the demand and on the supply side
                        P.append({'fam': fam, 'changes': {'District Heating Demand File Name': F.leap_demand_csv()}})
                    if tier == 'thorough' and tuple(s) == (5, 3, 2) and r in (3, 4):
                        inter = {kk: al[kk] for kk in ('Utilization Factor', 'End-Use Efficiency Factor',
                                                       'Injection Temperature', 'Ambient Temperature') if kk in al}
                        for extra in ('CHP Fraction', 'CHP Bottoming Entering Temperature', 'Heat Pump COP',
                                      'Absorption Chiller COP'):
                            if extra in al:
                                inter[extra] = al[extra]
                        for ch in e1.deviations(inter, 2):
                            P.append({'fam': fam, 'changes': ch})
    # closed-loop (SBT) reservoir and well bores feeding the same surface plants
    sbt_pairs = F.SBT_PAIRS + ((41, 1), (51, 2), (32, 1))
    for fam in F.sbt_grid(econs=(3,), pairs=sbt_pairs, shapes=((6, 2, 1), (3, 4, 1)) if tier == 'quick' else ((6, 2, 1), (3, 4, 1), (30, 1, 1), (2, 12, 1))):
        P.append({'fam': fam, 'changes': {}, 'base': True})
        if fam['shape'] == [6, 2, 1] and (fam['config'] == 5 or tier == 'thorough'):
            al = alphabets(fam)
            al['Production Flow Rate per Well'] = ['8', '40']
            for ch in e1.deviations(al, 1):
                P.append({'fam': fam, 'changes': ch})
    return P


def run(tier, seed, budget=None):
    return e1.run_generic(
        __import__('vf.checks.c02', fromlist=['x']), PID, tier, seed, budget,
        rule=('complete product end-use/plant pair (32) x reservoir model (4) x (lifetime, steps/yr, construction) shapes; '
              'on the deviation shapes every single-parameter deviation from the base over the listed alphabets plus '
              'structural deviations (Ramey off, impedance hydraulics, redrilling); district heating also with the demand derived from heating '
              'degree days (3 census divisions), a daily-resolution demand file and an hourly file covering a leap year (8784 hours); thorough adds all pairs of the '
              'interaction set. Non-trivial = accepted and HeatExtracted varies over time; distinct = digest of '
              '(plant class, reservoir class, end-use, shape, yearly extracted heat, first pumping powers)'),
        assumptions=['continuous parameters are explored only at the alphabet points',
                     'topping-cycle split is checked through the reported first-law efficiency (heat to power cycle = Net/eff)',
                     'single-sample last-year extrapolation rule of the pinned code is held as the definition'])
