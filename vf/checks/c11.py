"""C11 — economic results scale the way the definitions require (E1, relational)."""
import sys

from vf.core import e1, check, rel, snap, mv
from vf import families as F
from vf.oracles import econ_ref as R
from vf.checks.c01 import ADDON_ZERO

PID = 'C11'

COSTS = {'Total Capital Cost': 40.0, 'Total O&M Cost': 2.0, 'Well Drilling and Completion Capital Cost': 5.0,
         'Reservoir Stimulation Capital Cost': 1.0, 'One-time Flat License Fees Etc': 1.5, 'Annual License Fees Etc': 0.2,
         'One-time Grants Etc': 2.0, 'Other Incentives': 0.5, 'Electricity Rate': 0.07, 'Peaking Fuel Cost Rate': 0.0273,
         'Tax Relief Per Year': 0.1}
LC = ('economics.LCOE', 'economics.LCOH', 'economics.LCOC')
NPV = 'economics.Project Net Present Value'


def lc_of(o):
    return {k: o['hook']['out'].get(k) for k in LC}


def scaling_task(payload):
    res = check.new_result()
    rn = rel.Runner(res)
    fam = payload['fam']
    extra = payload.get('extra', {})
    base_d = F.override(F.fam_base(fam), {**{k: repr(v) for k, v in COSTS.items()}, **extra})
    b = rn.run(F.lines(base_d), want=(), tagname='scaling base')
    if b is None:
        res['infra'].append(f'scaling base not accepted: {payload}')
        return res
    lb = lc_of(b)
    for k in payload['ks']:
        d = F.override(base_d, {name: repr(v * k) for name, v in COSTS.items()})
        v = rn.run(F.lines(d), want=(), tagname=f'costs x {k}')
        if v is None:
            continue
        lv = lc_of(v)
        for name in LC:
            if lb[name] is None or lb[name] == 0:
                continue
            if not mv.close(lv[name], k * lb[name], 1e-9, 1e-12):
                check.fail(res, f'scaling/{name.split(".")[1]}/model{fam["econ"]}',
                           f'all cost inputs x {k}: {name} = {lv[name]!r}, expected {k} x {lb[name]!r} = {k * lb[name]!r} [{F.fam_id(fam)} {extra}]')
        dd = check.digest([F.fam_id(fam), extra, k, lv])
        res['states'].append(dd)
        res['nontrivial'].append(dd)
    res['sample'] = {'scaling': {'family': fam, 'extra': extra, 'ks': payload['ks'], 'base_levelized': lb}}
    return res


PRICE_MOVES = [  # (changes, description)
    ({'Starting {p} Sale Price': '+', 'Ending {p} Sale Price': '+'}, 'start and end price up'),
    ({'Starting {p} Sale Price': '+'}, 'start price up'),
    ({'{p} Escalation Rate Per Year': '+'}, 'escalation rate up'),
    ({'{p} Escalation Start Year': '-'}, 'escalation starts earlier'),
    ({'Ending {p} Sale Price': '-'}, 'end price down (cap binds)'),
    ({'Production Tax Credit {p}': '+ptc'}, 'production tax credit added'),
]
PRICE_BASE = {'Starting {p} Sale Price': 0.06, 'Ending {p} Sale Price': 0.09, '{p} Escalation Start Year': 2, '{p} Escalation Rate Per Year': 0.012}
# the three products get different schedules (a slip that builds one product's price from another's parameters must show)
PRICE_SHIFT = {'Electricity': (0.0, 0.0, 0, 0.0), 'Heat': (0.03, 0.05, -1, 0.004), 'Cooling': (-0.02, -0.03, 1, -0.005)}


ENERGY_KEY = {'Electricity': 'surfaceplant.Net Electricity Generation', 'Heat': 'surfaceplant.Heat Produced in kWh', 'Cooling': 'surfaceplant.Annual Cooling Produced'}


def price_series(d, prod, L):
    st, en = float(d[f'Starting {prod} Sale Price']), float(d[f'Ending {prod} Sale Price'])
    s, rate = int(float(d[f'{prod} Escalation Start Year'])), float(d[f'{prod} Escalation Rate Per Year'])
    ptc = [0.0] * L
    if f'Production Tax Credit {prod}' in d:
        ptc = R.ptc_model(L, int(float(d.get('Production Tax Credit Duration', 10))), float(d[f'Production Tax Credit {prod}']), False, 0.02)
    return R.price_model(L, st, en, s, rate, ptc)


def price_task(payload):
    res = check.new_result()
    rn = rel.Runner(res)
    fam = payload['fam']
    L = fam['shape'][0]
    prods = payload['products']
    ch = {}
    for p in prods:
        for (k, v), sh in zip(PRICE_BASE.items(), PRICE_SHIFT[p]):
            ch[k.replace('{p}', p)] = repr(round(v + sh, 6))
    ch['Production Tax Credit Duration'] = str(min(3, L))
    base_d = F.override(F.fam_base(fam), ch)
    b = rn.run(F.lines(base_d), want=(), tagname='price base')
    if b is None:
        res['infra'].append(f'price base not accepted: {payload}')
        return res
    bo = b['hook']['out']
    energy = {'Electricity': bo.get('surfaceplant.Annual Net Electricity Production', bo.get('surfaceplant.Net Electricity Production')),
              }
    for p in prods:
        for moves, desc in PRICE_MOVES:
            d = dict(base_d)
            for k, how in moves.items():
                name = k.replace('{p}', p)
                if how == '+':
                    d[name] = repr(float(d[name]) + 0.015)
                elif how == '-':
                    d[name] = repr(float(d[name]) - (1 if 'Year' in name else 0.02))
                elif how == '+ptc':
                    d[name] = '0.01'
            v = rn.run(F.lines(d), want=(), tagname=f'{p}: {desc}')
            if v is None:
                continue
            vo = v['hook']['out']
            for name in LC:
                if not snap.close(vo.get(name), bo.get(name), 0.0, 0.0):
                    check.fail(res, f'prices/levelized_cost_changed/{name.split(".")[1]}', f'{p}: {desc}: {name} changed from {bo.get(name)!r} to {vo.get(name)!r} [{F.fam_id(fam)}]')
            s0, s1 = price_series(base_d, p, L), price_series(d, p, L)
            up = all(y >= x for x, y in zip(s0, s1)) and any(y > x for x, y in zip(s0, s1))
            down = all(y <= x for x, y in zip(s0, s1)) and any(y < x for x, y in zip(s0, s1))
            n0, n1 = bo[NPV], vo[NPV]
            sold = payload['sold'].get(p, False)
            # "more revenue for a higher price" presupposes that the quantity sold is positive in every year: a bottoming cycle fed below its
            # entering temperature reports negative direct-use heat, and a higher heat price then lowers the NPV, as the definitions require
            ser = bo.get(ENERGY_KEY[p])
            positive = isinstance(ser, (list, tuple)) and len(ser) > 0 and all(isinstance(x, (int, float)) and x > 0 for x in ser)
            if sold and not positive:
                check.bump(res, 'price_direction_skipped_energy_not_positive')
                dd = check.digest([F.fam_id(fam), p, desc, n1])
                res['states'].append(dd)
                continue
            if sold and up and not n1 > n0:
                check.fail(res, f'prices/npv_direction/{p}', f'{desc}: {p} price series rose {s0} -> {s1} with energy sold, NPV went {n0!r} -> {n1!r} [{F.fam_id(fam)}]')
            if sold and down and not n1 < n0:
                check.fail(res, f'prices/npv_direction/{p}', f'{desc}: {p} price series fell {s0} -> {s1} with energy sold, NPV went {n0!r} -> {n1!r} [{F.fam_id(fam)}]')
            if (not sold or s0 == s1) and not mv.close(n0, n1, 1e-12, 1e-12):
                check.fail(res, f'prices/npv_moved_without_sales/{p}', f'{desc}: {p} is not sold (or its price series is unchanged) yet NPV went {n0!r} -> {n1!r} [{F.fam_id(fam)}]')
            dd = check.digest([F.fam_id(fam), p, desc, n1])
            res['states'].append(dd)
            if sold and (up or down):
                res['nontrivial'].append(dd)
    res['sample'] = {'prices': {'family': fam, 'products': prods, 'base_npv': bo[NPV]}}
    return res


def efficiency_task(payload):
    res = check.new_result()
    rn = rel.Runner(res)
    fam = payload['fam']
    for e_hi, e_lo in ((0.8, 0.4), (1.0, 0.5), (0.5, 0.25)):
        a = rn.run(F.lines(F.override(F.fam_base(fam), {'End-Use Efficiency Factor': repr(e_hi), **payload.get('extra', {})})), want=(), tagname=f'eta {e_hi}')
        b = rn.run(F.lines(F.override(F.fam_base(fam), {'End-Use Efficiency Factor': repr(e_lo), **payload.get('extra', {})})), want=(), tagname=f'eta {e_lo}')
        if a is None or b is None:
            continue
        la, lb = a['hook']['out']['economics.LCOH'], b['hook']['out']['economics.LCOH']
        if not mv.close(lb, 2 * la, 1e-9, 1e-12):
            check.fail(res, f'efficiency/lcoh/model{fam["econ"]}', f'end-use efficiency {e_hi} -> {e_lo}: LCOH {la!r} -> {lb!r}, expected doubling to {2 * la!r} [{F.fam_id(fam)} {payload.get("extra")}]')
        dd = check.digest([F.fam_id(fam), e_hi, la, lb])
        res['states'].append(dd)
        res['nontrivial'].append(dd)
    res['sample'] = {'efficiency': {'family': fam}}
    return res


def strip_extended(report):
    out = []
    for l in report.splitlines():
        if 'EXTENDED ECONOMICS' in l or 'EXTENDED ECONOMIC PROFILE' in l:
            break
        out.append(l.rstrip())
    while out and not out[-1]:
        out.pop()
    return out


NEUTRAL = [('zero add-on', dict(ADDON_ZERO)), ('zero-rate tax credit', {'Investment Tax Credit Rate': '0'}), ('zero grant', {'One-time Grants Etc': '0'}),
           ('zero incentive', {'Other Incentives': '0'}), ('zero flat fee', {'One-time Flat License Fees Etc': '0'}),
           ('zero annual fee', {'Annual License Fees Etc': '0'}), ('zero tax relief', {'Tax Relief Per Year': '0'})]


def neutral_task(payload):
    res = check.new_result()
    rn = rel.Runner(res)
    fam = payload['fam']
    extra = payload.get('extra', {})
    base_d = F.override(F.fam_base(fam), extra)
    b = rn.run(F.lines(base_d), tagname='neutral base')
    if b is None:
        res['infra'].append(f'neutral base not accepted: {payload}')
        return res
    for desc, ch in NEUTRAL:
        c = {k: v for k, v in ch.items() if k != 'Construction Years'}
        st, o = rel.observe(F.lines(F.override(base_d, c)))
        res['execs'] += 1
        res['steps'] += 1
        key = desc.replace(' ', '_')
        if st == 'infra':
            res['infra'].append(str(o))
            continue
        if st == 'rejected':
            res['not_accepted'] += 1
            check.fail(res, f'neutral/{key}/run_fails', f'adding a {desc} makes the run fail: {o.get("exc")} [{F.fam_id(fam)} {extra}]')
            continue
        res['accepted'] += 1
        bad = snap.diff({k: v for k, v in b['hook']['out'].items() if not k.startswith('addeconomics.')},
                        {k: v for k, v in o['hook']['out'].items() if not k.startswith('addeconomics.')}, 1e-12, 0.0)
        if bad:
            check.fail(res, f'neutral/{key}/results_changed', f'adding a {desc} changes {bad[:6]} [{F.fam_id(fam)} {extra}]')
        r0, r1 = strip_extended(b['report']), strip_extended(o['report'])
        if r0 != r1:
            dl = next(((x, y) for x, y in zip(r0, r1) if x != y), (len(r0), len(r1)))
            check.fail(res, f'neutral/{key}/report_changed', f'adding a {desc} changes the report outside the extended block: {dl!r} [{F.fam_id(fam)} {extra}]')
        dd = check.digest([F.fam_id(fam), extra, desc])
        res['states'].append(dd)
        res['nontrivial'].append(dd)
    res['sample'] = {'neutral': {'family': fam, 'extra': extra}}
    return res


def task(payload):
    return {'scaling': scaling_task, 'price': price_task, 'eff': efficiency_task, 'neutral': neutral_task}[payload['kind']](payload)


def sold_products(pair):
    eu, pt = pair
    if eu == 1:
        return {'Electricity': True}
    if eu == 2 and pt == 5:
        return {'Cooling': True}
    if eu == 2:
        return {'Heat': True}
    return {'Electricity': True, 'Heat': True}


def plan(tier, seed):
    P = []
    shapes = [(5, 3, 2)] if tier == 'quick' else [(5, 3, 2), (3, 1, 1), (2, 4, 3)]
    ress = (4,) if tier == 'quick' else (3, 4)
    for em in F.ECON_MODELS:
        for pair in F.PAIRS:
            for r in ress:
                for s in shapes:
                    fam = {'econ': em, 'enduse': pair[0], 'plant': pair[1], 'res': r, 'shape': list(s)}
                    for extra in ({}, {'Maximum Drawdown': '0.05'}):
                        if extra and tier == 'quick' and em != 2:
                            continue
                        P.append({'kind': 'scaling', 'fam': fam, 'extra': extra, 'ks': [0.5, 2.0, 3.0]})
                    if tuple(s) == (5, 3, 2) and (em == 1 or tier == 'thorough'):
                        P.append({'kind': 'price', 'fam': fam, 'products': ['Electricity', 'Heat', 'Cooling'], 'sold': sold_products(pair)})
                    if pair == (2, 9):
                        for extra in ({}, {'Total Capital Cost': '40'}, {'Maximum Drawdown': '0.05'}):
                            P.append({'kind': 'eff', 'fam': fam, 'extra': extra})
                    if tuple(s) == (5, 3, 2) and (r == 4) and (em == 1 or pair[1] in (1, 9) or tier == 'thorough'):
                        fam1 = dict(fam)
                        fam1['shape'] = [5, 3, 1]      # the add-on writer needs one construction year on the pinned tree (C09)
                        P.append({'kind': 'neutral', 'fam': fam1, 'extra': {}})
                        if em == 2:
                            P.append({'kind': 'neutral', 'fam': fam1, 'extra': {'Total Capital Cost': '40'}})
    # a declining field whose net generation turns negative after two years: a neutral element must stay neutral there too
    declining = {'Drawdown Parameter': '0.15', 'Productivity Index': '1', 'Injectivity Index': '1'}
    for em in F.ECON_MODELS:
        for pair in ((1, 1), (1, 4), (31, 2), (52, 1)):
            P.append({'kind': 'neutral', 'fam': {'econ': em, 'enduse': pair[0], 'plant': pair[1], 'res': 4, 'shape': [6, 2, 1]}, 'extra': dict(declining)})
    # closed-loop (SBT) economics: same relations
    for fam in F.sbt_grid(configs=(5,) if tier == 'quick' else (1, 5)):
        pair = (fam['enduse'], fam['plant'])
        P.append({'kind': 'scaling', 'fam': fam, 'extra': {}, 'ks': [0.5, 2.0, 3.0]})
        if fam['econ'] == 1 or tier == 'thorough':
            P.append({'kind': 'price', 'fam': fam, 'products': ['Electricity', 'Heat'], 'sold': sold_products(pair)})
        if pair in ((1, 2), (2, 9)):
            P.append({'kind': 'neutral', 'fam': fam, 'extra': {}})
    return P


def run(tier, seed, budget=None):
    return e1.run_generic(
        sys.modules[__name__], PID, tier, seed, budget,
        rule=('run pairs on the real pipeline: (a) 3 economic models x 32 end-use/plant pairs with every cost user-fixed, all cost inputs x k, '
              'k in {0.5,2,3}, with/without redrilling; (b) six price moves per product (sold and not sold) - levelized costs bit-identical, NPV '
              'strictly in the direction of the price series when the product is sold; (c) end-use efficiency halved for direct-use heat, three '
              'pairs, three cost settings; (d) seven neutral elements (zero add-on, zero-rate ITC, zero grant/incentive/fees/relief), also on a declining field whose net generation turns negative - all '
              'outputs and every report line outside the extended block identical. Distinct by (family, relation, variant)'),
        assumptions=['price direction is derived from price_ref applied to the two inputs', 'neutral add-on compared with one construction year'])
