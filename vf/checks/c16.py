"""
C16 — price and incentive schedules have the documented shape.
Part F: the two schedule builders called directly over complete small integer domains (function level, exhaustive).
Part E: end-to-end runs; price series at the hook against price_ref for all four products; incentive arithmetic as
        relations between a run and the same run without the incentive.
"""
import itertools
import sys
import time

from vf.core import e1, mv, runner, check
from vf.core.mv import V
from vf import families as F
from vf.oracles import econ_ref as R
from vf.checks import econ_common as EC

PID = 'C16'

SE = [(0.05, 0.1), (0.1, 0.1), (0.1, 0.05), (0.0, 1.0)]
RATES = [0.0, 0.001, 0.01, 1.0]
INFL = [0.0, 0.02]
PTC0 = [0.04]


def func_task(payload):
    """all (escalation start, start/end, rate, PTC duration, adjusted, inflation) for one lifetime; real builders in-process."""
    res = check.new_result()
    L = payload['L']
    from geophires_x import Economics as E
    n = 0
    states = set()
    for dur, adj, infl, p0 in itertools.product(range(0, L + 1), (False, True), INFL, PTC0):
        try:
            got = list(E.BuildPTCModel(L, dur, p0, adj, infl))
        except Exception as ex:  # noqa
            check.fail(res, 'func/ptc/exception', f'BuildPTCModel({L},{dur},{p0},{adj},{infl}) raised {ex!r}')
            continue
        exp = R.ptc_model(L, dur, p0, adj, infl)
        n += 1
        i = mv.first_mismatch(got, exp, 1e-12, 0.0)
        if i is not None:
            check.fail(res, 'func/ptc/' + ('length' if i == -1 else ('inside' if i < dur else 'after_duration')),
                       f'BuildPTCModel(L={L}, duration={dur}, ptc={p0}, adjusted={adj}, infl={infl}) -> {got} expected {exp}')
        ptcs = [got]
        if dur in (0, 1, L):
            for s in range(0, L + 2):
                for (st, en), rate in itertools.product(SE, RATES):
                    try:
                        pr = list(E.BuildPricingModel(L, st, en, s, rate, list(got)))
                    except Exception as ex:  # noqa
                        check.fail(res, 'func/price/exception', f'BuildPricingModel({L},{st},{en},{s},{rate}) raised {ex!r}')
                        continue
                    ex_ = R.price_model(L, st, en, s, rate, exp)
                    n += 1
                    j = mv.first_mismatch(pr, ex_, 1e-12, 0.0)
                    if j is not None:
                        if j == -1:
                            cls = 'length'
                        elif j < s:
                            cls = 'before_escalation'
                        elif j == s:
                            cls = 'at_escalation_start'
                        else:
                            cls = 'after_escalation_start'
                        check.fail(res, 'func/price/' + cls,
                                   f'BuildPricingModel(L={L}, start={st}, end={en}, esc_start={s}, rate={rate}, ptc={got}) -> {pr} expected {ex_}')
                    if len(pr) > 1 and max(pr) != min(pr):
                        states.add(check.digest([L, s, st, en, rate, dur, adj, infl]))
    res['execs'] = n
    res['accepted'] = n
    res['steps'] = n
    res['states'] = list(states)
    res['nontrivial'] = list(states)
    if L == 5:
        res['sample'] = {'function_level': {'L': L, 'example': {'args': [5, 0.05, 0.1, 2, 0.01], 'price': list(E.BuildPricingModel(5, 0.05, 0.1, 2, 0.01, [0.04, 0.04, 0, 0, 0]))}}}
    return res


# ------------------------------------------------------------------------------------------------ end to end
PRODUCTS = (('Electricity', 'ElecPrice', 'Production Tax Credit Electricity'), ('Heat', 'HeatPrice', 'Production Tax Credit Heat'),
            ('Cooling', 'CoolingPrice', 'Production Tax Credit Cooling'))


def price_monitor(m, payload):
    fails = []
    ec, sp = m.economics, m.surfaceplant
    inp = EC.input_dict(payload)
    L = int(V(sp, 'plant_lifetime'))
    cy = int(V(sp, 'construction_years'))
    infl = float(inp.get('Inflation Rate', 0.02))
    dur = int(float(inp.get('Production Tax Credit Duration', 10)))
    adj = str(inp.get('Production Tax Credit Inflation Adjusted', 'False')) in ('True', '1', 'true')
    got_all = {}
    for prod, attr, ptcname in PRODUCTS + (('Carbon', 'CarbonPrice', None),):
        defaults = {'Electricity': (0.055, 0.055, 5, 0.0), 'Heat': (0.025, 0.025, 5, 0.0), 'Cooling': (0.025, 0.025, 5, 0.0),
                    'Carbon': (0.0, 0.0, 0, 0.0)}[prod]
        if prod == 'Carbon':
            names = ('Starting Carbon Credit Value', 'Ending Carbon Credit Value', 'Carbon Escalation Start Year', 'Carbon Escalation Rate Per Year')
        else:
            names = (f'Starting {prod} Sale Price', f'Ending {prod} Sale Price', f'{prod} Escalation Start Year', f'{prod} Escalation Rate Per Year')
        st, en, s, rate = (float(inp.get(nm, d)) for nm, d in zip(names, defaults))
        ptc = [0.0] * L
        if ptcname and ptcname in inp:
            ptc = R.ptc_model(L, dur, float(inp[ptcname]), adj, infl)
        exp = [0.0] * cy + R.price_model(L, st, en, int(s), rate, ptc)
        got = [float(x) for x in V(ec, attr)]
        got_all[attr] = got
        i = mv.first_mismatch(got, exp, 1e-12, 1e-15)
        if i is not None:
            if i == -1:
                cls = 'length'
            elif i < cy:
                cls = 'construction_years_not_zero'
            else:
                cls = 'schedule'
            fails.append((f'e2e/price/{prod}/{cls}', f'{attr} = {got}, expected {exp} (cy={cy}, L={L}, start={st}, end={en}, esc={s}, rate={rate}, ptc={ptc})'))
    state = [L, cy, {k: [round(x, 12) for x in v] for k, v in got_all.items()}]
    nontriv = any(len(set(v[cy:])) > 1 for v in got_all.values())
    return {'fails': fails, 'state': state, 'nontrivial': nontriv,
            'sample': {'family': payload.get('fam'), 'changes': payload.get('changes'), 'ElecPrice': got_all['ElecPrice']}}


def cost_snapshot(m, payload):
    ec = m.economics
    return {'CCap': float(V(ec, 'CCap')), 'Coam': float(V(ec, 'Coam')), 'RITCValue': float(V(ec, 'RITCValue')),
            'state': None}


INCENTIVES = [  # (input name, values, kind)
    ('Investment Tax Credit Rate', ['0.3', '1', '0.05'], 'itc'),
    ('One-time Grants Etc', ['5', '-7.5', '1000'], 'capex-'),
    ('Other Incentives', ['5', '-7.5'], 'capex-'),
    ('One-time Flat License Fees Etc', ['5', '-7.5'], 'capex+'),
    ('Annual License Fees Etc', ['0.5', '-0.75'], 'opex+'),
    ('Tax Relief Per Year', ['0.5', '2'], 'opex-'),
]


def rel_task(payload):
    """base run + every incentive variant of one family; relations between the pairs."""
    res = check.new_result()
    fam = payload['fam']
    extra = payload.get('changes', {})

    def run(changes):
        ch = dict(extra)
        ch.update(changes)
        p = {'fam': fam, 'changes': ch}
        r = e1.unary_task(p, lambda m, pl: {'fails': [], 'snap': cost_snapshot(m, pl)}, want=())
        return r

    def snap_of(changes):
        ch = dict(extra)
        ch.update(changes)
        from vf.core import sim

        def job(_):
            o = sim.simulate(F.lines(F.override(F.fam_base(fam), ch)), at_hook=lambda m: cost_snapshot(m, None), want=())
            return o
        tag = runner.fork_exec(job, None)
        res['execs'] += 1
        res['steps'] += 1
        if tag[0] != 'ok':
            res['infra'].append(f'execution failed: {tag[1]}')
            return None
        o = tag[1]
        if o['status'] != 'accepted':
            res['not_accepted'] += 1
            check.note(res, 'rejected_inputs', f"{o.get('exc_class')}: {ch} :: {str(o.get('exc'))[:120]}")
            return None
        if o.get('hook_exc'):
            res['infra'].append('monitor crashed: ' + o['hook_exc'])
            return None
        res['accepted'] += 1
        return o['hook']

    base = snap_of({})
    if base is None:
        res['infra'].append(f'base of relational family not accepted: {payload}')
        return res
    for name, values, kind in INCENTIVES:
        if name in extra:
            continue
        for v in values:
            var = snap_of({name: v})
            if var is None:
                continue
            x = float(v)
            key = None
            if kind == 'itc':
                adjust = (float(extra.get('One-time Flat License Fees Etc', 0)) - float(extra.get('Other Incentives', 0))
                          - float(extra.get('One-time Grants Etc', 0)))
                pre = base['CCap'] - adjust      # cost before ITC, fees, incentives and grants
                if not mv.close(var['CCap'], (1 - x) * pre + adjust, 1e-9, 1e-12):
                    key, msg = 'e2e/itc/total', f"CCap with ITC {x} = {var['CCap']!r}, expected (1-rate) x {pre!r} + {adjust} = {(1 - x) * pre + adjust!r}"
                elif not mv.close(var['RITCValue'], x * pre, 1e-9, 1e-12):
                    key, msg = 'e2e/itc/value', f"ITC value {var['RITCValue']!r}, expected rate x pre-ITC cost = {x * pre!r}"
                elif not mv.close(var['Coam'], base['Coam'], 1e-9, 1e-12):
                    key, msg = 'e2e/itc/opex_changed', f"O&M changed from {base['Coam']!r} to {var['Coam']!r} by an ITC"
            else:
                tgt, sign = ('CCap', 1) if kind.startswith('capex') else ('Coam', 1)
                sgn = 1 if kind.endswith('+') else -1
                other = 'Coam' if tgt == 'CCap' else 'CCap'
                if not mv.close(var[tgt], base[tgt] + sgn * x, 1e-9, 1e-12):
                    key, msg = f'e2e/{name}/amount', f'{tgt} with {name}={x}: {var[tgt]!r}, expected {base[tgt]!r} {"+" if sgn > 0 else "-"} {x} = {base[tgt] + sgn * x!r}'
                elif not mv.close(var[other], base[other], 1e-9, 1e-12):
                    key, msg = f'e2e/{name}/side_effect', f'{other} changed from {base[other]!r} to {var[other]!r}'
            if key:
                check.fail(res, key, msg + f' [family {F.fam_id(fam)} {extra}]')
            d = check.digest([F.fam_id(fam), extra, name, v, round(var['CCap'], 9), round(var['Coam'], 9)])
            res['states'].append(d)
            res['nontrivial'].append(d)
    res['sample'] = {'relational_family': fam, 'extra': extra, 'base': base}
    return res


def task(payload):
    k = payload.get('kind')
    if k == 'func':
        return func_task(payload)
    if k == 'rel':
        return rel_task(payload)
    return e1.unary_task(payload, price_monitor, want=())


PRICE_AL = {
    'Starting {p} Sale Price': ['0', '0.2', '100'], 'Ending {p} Sale Price': ['0', '0.02', '100'],
    '{p} Escalation Start Year': ['0', '1', '{L}', '{L1}'], '{p} Escalation Rate Per Year': ['0', '0.05', '100'],
}


def plan(tier, seed):
    P = []
    Lmax = 30 if tier == 'quick' else 100
    for L in range(1, Lmax + 1):
        P.append({'kind': 'func', 'L': L})
    shapes = [(L, 2 if L == 1 else 1, cy) for L in (1, 2, 5) for cy in (1, 2, 3, 14)]
    pairs = ((1, 1), (2, 9), (2, 5), (31, 2), (52, 4)) if tier == 'quick' else F.PAIRS
    for pair in pairs:
        for s in shapes:
            fam = {'econ': 1 + (s[2] % 3), 'enduse': pair[0], 'plant': pair[1], 'res': 4, 'shape': list(s)}
            P.append({'fam': fam, 'changes': {}, 'base': True})
            L = s[0]
            for prod in ('Electricity', 'Heat', 'Cooling'):
                for k, vals in PRICE_AL.items():
                    for v in vals:
                        v = v.replace('{L}', str(L)).replace('{L1}', str(L + 1))
                        P.append({'fam': fam, 'changes': {k.replace('{p}', prod): v}})
                # start > end together with an escalation
                P.append({'fam': fam, 'changes': {f'Starting {prod} Sale Price': '0.2', f'Ending {prod} Sale Price': '0.1',
                                                  f'{prod} Escalation Rate Per Year': '0.01', f'{prod} Escalation Start Year': '0'}})
            for dur in sorted({0, 1, L}):
                for adj in ('False', 'True'):
                    for infl in ('0', '0.02'):
                        P.append({'fam': fam, 'changes': {'Production Tax Credit Electricity': '0.04', 'Production Tax Credit Heat': '0.5',
                                                          'Production Tax Credit Cooling': '0.5', 'Production Tax Credit Duration': str(dur),
                                                          'Production Tax Credit Inflation Adjusted': adj, 'Inflation Rate': infl}})
            P.append({'fam': fam, 'changes': {'Do Carbon Price Calculations': 'True', 'Starting Carbon Credit Value': '0.01',
                                              'Ending Carbon Credit Value': '0.05', 'Carbon Escalation Rate Per Year': '0.01',
                                              'Carbon Escalation Start Year': '1'}})
    # closed-loop (SBT) economics builds its price/PTC series in its own Calculate
    for fam0 in F.sbt_grid(econs=(3,), configs=(5,), pairs=((1, 2), (2, 9), (31, 1))):
        for s in ((1, 2, 1), (2, 1, 2), (5, 1, 1)):
            fam = dict(fam0)
            fam['shape'] = list(s)
            fam['econ'] = 1 + (s[2] % 3)
            P.append({'fam': fam, 'changes': {}, 'base': True})
            L = s[0]
            for prod in ('Electricity', 'Heat'):
                for k, vals in PRICE_AL.items():
                    for v in vals:
                        v = v.replace('{L}', str(L)).replace('{L1}', str(L + 1))
                        P.append({'fam': fam, 'changes': {k.replace('{p}', prod): v}})
            for dur in sorted({0, 1, L}):
                for adj in ('False', 'True'):
                    P.append({'fam': fam, 'changes': {'Production Tax Credit Electricity': '0.04', 'Production Tax Credit Heat': '0.5',
                                                      'Production Tax Credit Duration': str(dur), 'Production Tax Credit Inflation Adjusted': adj, 'Inflation Rate': '0.02'}})
            P.append({'fam': fam, 'changes': {'Do Carbon Price Calculations': 'True', 'Starting Carbon Credit Value': '0.01',
                                              'Ending Carbon Credit Value': '0.05', 'Carbon Escalation Rate Per Year': '0.01',
                                              'Carbon Escalation Start Year': '1'}})
    # incentive relations
    rel_pairs = ((1, 1), (2, 9), (2, 7), (41, 3)) if tier == 'quick' else F.PAIRS
    for pair in rel_pairs:
        for em in F.ECON_MODELS:
            fam = {'econ': em, 'enduse': pair[0], 'plant': pair[1], 'res': 4, 'shape': [5, 3, 2]}
            for extra in ({}, {'Total Capital Cost': '60'}, {'Total O&M Cost': '2'}, {'Maximum Drawdown': '0.05'},
                          {'One-time Grants Etc': '3', 'One-time Flat License Fees Etc': '1', 'Annual License Fees Etc': '0.2'}):
                P.append({'kind': 'rel', 'fam': fam, 'changes': extra})
    return P


def run(tier, seed, budget=None):
    return e1.run_generic(
        sys.modules[__name__], PID, tier, seed, budget,
        rule=('function level: BuildPTCModel for every (lifetime 1..30|100, duration 0..L, adjusted, inflation) and BuildPricingModel '
              'for every (lifetime, escalation start 0..L+1, 4 start/end pairs incl. start>end, 4 rates, PTC with duration 0/1/L) - '
              'complete; end to end: lifetime {1,2,5} x construction years {1,2,3,14} x every single price-parameter deviation for '
              'three products + PTC and carbon schedules at the hook; incentives as run pairs (with/without) over 3 economic models '
              'x plant pairs x {plain, fixed total capex, fixed total O&M, redrilling}. Non-trivial = a price schedule that varies / '
              'a completed pair; distinct by digest of the arguments'),
        assumptions=['a PTC is added to the price in the unit the user typed it (no unit conversion is part of the claim)',
                     'PTC duration > lifetime is not an accepted input on the pinned tree (IndexError) and is outside the quantifier'])
