"""C20 — all entry points give the same answer (finite complete product: input x entry point x output argument x starting directory)."""
import json
import os
import subprocess
import sys
import tempfile

from vf.core import e1, check, runner, sim
from vf import families as F
from vf.checks.c01 import ADDON_GAIN
from vf.checks import c08

PID = 'C20'

INPUTS = ['okE', 'okH', 'okA', 'okSDAC', 'okHTML', 'okDef', 'failR', 'failC', 'failP', 'failX']
PRIORS = [None, 'okOdd', 'okX', 'failX']     # what the same interpreter was asked before (in-process entry points only)
# 'noext': a report name without extension; 'dotdir': the same inside a directory whose name contains a dot (the JSON name must be derived from
# the file name only); the third starting directory has a dot in its own name, so that every relative argument is resolved below a dotted path
OUTARGS = ['none', 'rel', 'subdir', 'abs', 'dircomponent', 'noext', 'dotdir']
STARTS = ['A', 'B/sub', 'C.d/run']


def lines_for(kind):
    if kind == 'okHTML':
        return c08.req_lines('okH') + ['HTML Output File, rel.html']
    return c08.req_lines(kind)


def cli_case(arg):
    """child: python -m geophires_x in a real subprocess."""
    kind, outarg, start = arg
    tmp = tempfile.gettempdir()
    root = os.path.join(tmp, 'cli')
    cwd = os.path.join(root, start)
    os.makedirs(cwd, exist_ok=True)
    inp = os.path.join(root, 'input.txt')
    with open(inp, 'w') as f:
        f.write('\n'.join(lines_for(kind)) + '\n')
    rel_in = os.path.relpath(inp, cwd)
    argv = [sys.executable, '-m', 'geophires_x', rel_in]
    if outarg == 'none':
        target = os.path.join(cwd, 'HDR.out')
    elif outarg == 'rel':
        argv.append('x.out')
        target = os.path.join(cwd, 'x.out')
    elif outarg == 'subdir':
        os.makedirs(os.path.join(cwd, 'sub2'), exist_ok=True)
        argv.append('sub2/x.out')
        target = os.path.join(cwd, 'sub2', 'x.out')
    elif outarg == 'abs':
        os.makedirs(os.path.join(root, 'absdir'), exist_ok=True)
        target = os.path.join(root, 'absdir', 'y.out')
        argv.append(target)
    elif outarg == 'noext':
        argv.append('report')
        target = os.path.join(cwd, 'report')
    elif outarg == 'dotdir':
        os.makedirs(os.path.join(cwd, 'v1.2'), exist_ok=True)
        argv.append('v1.2/report')
        target = os.path.join(cwd, 'v1.2', 'report')
    else:
        os.makedirs(os.path.join(cwd, 'x.out'), exist_ok=True)
        argv.append('x.out/x.out')
        target = os.path.join(cwd, 'x.out', 'x.out')
    # the command line runs from a private view of the source tree (a directory of symbolic links to the real files): whatever the run drops
    # into the package directory lands in this execution's own directory, where it can be attributed to it (the real one is shared by all
    # concurrent executions)
    priv = os.path.join(root, 'src-view')
    real_src = runner.repo_src()
    os.makedirs(priv, exist_ok=True)
    for top in os.listdir(real_src):
        if top == 'geophires_x':
            os.makedirs(os.path.join(priv, top), exist_ok=True)
            for x in os.listdir(os.path.join(real_src, top)):
                # (report-like files lying in the real package directory are some other run's droppings, not source: not linked)
                if x != '__pycache__' and not x.endswith(('.out', '.json', '.html', '.csv', '.png')) and not os.path.lexists(os.path.join(priv, top, x)):
                    os.symlink(os.path.join(real_src, top, x), os.path.join(priv, top, x))
        elif not os.path.lexists(os.path.join(priv, top)):
            os.symlink(os.path.join(real_src, top), os.path.join(priv, top))
    env = dict(os.environ, PYTHONPATH=priv, PYTHONDONTWRITEBYTECODE='1')
    env.pop('GEOPHIRES_X_VERIF', None)
    p = subprocess.run(argv, cwd=cwd, env=env, capture_output=True, text=True, timeout=600)
    out = {'rc': p.returncode, 'target': target, 'root': root, 'report': None, 'json_ok': None, 'stderr': p.stderr[-300:]}
    if os.path.isfile(target):
        with open(target, encoding='UTF-8') as f:
            out['report'] = sim.strip_clock(f.read())
    jp = os.path.splitext(target)[0] + '.json'
    if os.path.isfile(jp):
        try:
            with open(jp) as f:
                out['json_ok'] = isinstance(json.load(f), dict)
        except ValueError:
            out['json_ok'] = False
    out['html_at_start_dir'] = os.path.isfile(os.path.join(cwd, 'rel.html'))
    # every file created anywhere under the scratch root (relative), to spot outputs landing elsewhere
    created = []
    for dp, dn, fn in os.walk(root):
        if os.path.relpath(dp, root).split(os.sep)[0] == 'src-view':
            continue
        for x in fn:
            created.append(os.path.relpath(os.path.join(dp, x), root))
    out['created'] = sorted(created)
    # anything in the private package directory that is not one of the links: written there by this run
    pkg = os.path.join(priv, 'geophires_x')
    # (the program's own log file is configured - logging.conf - to live in the package directory; it is not an output of the run)
    out['stray_in_src'] = sorted(x for x in os.listdir(pkg) if not os.path.islink(os.path.join(pkg, x)) and x != '__pycache__' and not x.endswith('.log'))
    return out


def inproc_case(arg):
    """child: the in-process entry points (client, direct main(), the client as embedded by the Monte-Carlo work_package)."""
    kind, entry, start = arg[:3]
    prior = arg[3] if len(arg) > 3 else None
    tmp = tempfile.gettempdir()
    cwd = os.path.join(tmp, 'ip', start)
    os.makedirs(cwd, exist_ok=True)
    os.chdir(cwd)
    out = {'rc': 0, 'report': None}
    if prior:
        # the long-lived interpreter an embedding application (or the Monte-Carlo parent its workers are forked from) really is:
        # it has already served another request
        from geophires_x_client import GeophiresXClient, GeophiresInputParameters
        try:
            GeophiresXClient(enable_caching=False).get_geophires_result(GeophiresInputParameters(from_file_path=str(sim.write_input(lines_for(prior), name='prior.txt'))))
            out['prior'] = 'ok'
        except BaseException as e:  # noqa
            out['prior'] = type(e).__name__
        os.chdir(cwd)
    inp = str(sim.write_input(lines_for(kind), name='input.txt'))
    try:
        if entry == 'client':
            from geophires_x_client import GeophiresXClient, GeophiresInputParameters
            r = GeophiresXClient(enable_caching=False).get_geophires_result(GeophiresInputParameters(from_file_path=inp))
            with open(r.output_file_path, encoding='UTF-8') as f:
                out['report'] = sim.strip_clock(f.read())
        elif entry == 'main':
            from geophires_x import GEOPHIRESv3
            target = os.path.join(tmp, 'ip', 'direct.out')
            sys.argv = ['', inp, target]
            try:
                GEOPHIRESv3.main(enable_geophires_logging_config=False)
            finally:
                os.chdir(cwd)
            with open(target, encoding='UTF-8') as f:
                out['report'] = sim.strip_clock(f.read())
        else:
            import argparse
            import geophires_monte_carlo.MC_GeoPHIRES3 as MC
            from geophires_x_client import GeophiresXClient
            captured = []

            class Rec(GeophiresXClient):
                def get_geophires_result(self, params):
                    r = super().get_geophires_result(params)
                    with open(r.output_file_path, encoding='UTF-8') as f:
                        captured.append(f.read())
                    return r
            MC.GeophiresXClient = Rec
            resf = os.path.join(tmp, 'ip', 'MC_Result.txt')
            with open(resf, 'w') as f:
                f.write('h\n')
            args = argparse.Namespace(Code_File='x/GEOPHIRESv3.py', Input_file=inp, MC_Settings_file='', MC_OUTPUT_FILE=resf)
            MC.work_package([[], ['End-Use Option'], args, resf, tmp + os.sep, 'python'])
            out['report'] = sim.strip_clock(captured[0]) if captured else None
    except BaseException as e:  # noqa
        out['rc'] = 1
        out['exc'] = f'{type(e).__name__}: {str(e)[:200]}'
    out['html_at_start_dir'] = os.path.isfile(os.path.join(cwd, 'rel.html'))
    return out


def task(payload):
    """one case of the product; the report is compared with the report the client gives for the same input (common reference)."""
    res = check.new_result()
    kind, entry, start, outarg, prior = payload['kind'], payload['entry'], payload['start'], payload.get('outarg'), payload.get('prior')
    failing = kind.startswith('fail')
    ref = None
    if not failing:
        tagr = runner.fork_exec(inproc_case, (kind, 'client', 'A'), timeout=900)
        res['execs'] += 1
        if tagr[0] != 'ok' or tagr[1]['rc'] != 0:
            res['infra'].append(f'reference client run failed for {kind}: {tagr[1]}')
            return res
        ref = tagr[1]['report']
    if entry != 'cli':
        tag = runner.fork_exec(inproc_case, (kind, entry, start, prior), timeout=900)
        res['execs'] += 1
        res['steps'] += 1
        if tag[0] != 'ok':
            res['infra'].append(f'in-process entry failed: {tag[1]} {tag[2] if len(tag) > 2 else ""}')
            return res
        o = tag[1]
        res['accepted' if o['rc'] == 0 else 'not_accepted'] += 1
        ctx = f'[{kind} via {entry} from {start}' + (f', after {prior} in the same interpreter]' if prior else ']')
        if prior and (o.get('prior') == 'ok') != (not prior.startswith('fail')):
            res['infra'].append(f'{ctx} prior request outcome unexpected: {o.get("prior")}')
        if failing and o['rc'] == 0:
            check.fail(res, f'failing_input_succeeds/{entry}', f'{ctx} a failing input produced a result')
        if not failing:
            if o['rc'] != 0:
                check.fail(res, f'entry_point_fails/{entry}', f'{ctx} raised {o.get("exc")}')
            elif o['report'] != ref:
                a, b = ref.splitlines(), (o['report'] or '').splitlines()
                dl = next(((x, y) for x, y in zip(a, b) if x != y), ('<length>', f'{len(a)} vs {len(b)}'))
                check.fail(res, f'reports_differ/{entry}', f'{ctx} report differs from the client report: {dl[0]!r} vs {dl[1]!r}')
            if kind == 'okHTML' and entry in ('client', 'main') and not o['html_at_start_dir']:
                check.fail(res, f'relative_output_parameter_misplaced/{entry}', f'{ctx} relative "HTML Output File" did not land in the starting directory')
    else:
        tag = runner.fork_exec(cli_case, (kind, outarg, start), timeout=900)
        res['execs'] += 1
        res['steps'] += 1
        if tag[0] != 'ok':
            res['infra'].append(f'CLI case failed: {tag[1]} {tag[2] if len(tag) > 2 else ""}')
            return res
        o = tag[1]
        res['accepted' if o['rc'] == 0 else 'not_accepted'] += 1
        ctx = f'[{kind} via CLI, output argument {outarg}, from {start}]'
        if failing:
            if o['rc'] == 0:
                check.fail(res, 'cli/failing_input_exit_zero', f'{ctx} exit status 0 for a failing simulation')
            if o['report'] is not None:
                check.fail(res, f'cli/report_written_on_failure/{kind}', f'{ctx} a report file exists at {o["target"]} although the simulation failed')
        else:
            if o['rc'] != 0:
                check.fail(res, f'cli/nonzero_exit/{outarg}', f'{ctx} exit status {o["rc"]}: {o["stderr"][-200:]!r}; files created: {o["created"]}')
            if o['report'] is None:
                check.fail(res, f'cli/report_not_at_requested_path/{outarg}', f'{ctx} no report at {o["target"]}; files created: {o["created"]}')
            elif o['report'] != ref:
                a, b = ref.splitlines(), o['report'].splitlines()
                dl = next(((x, y) for x, y in zip(a, b) if x != y), ('<length>', f'{len(a)} vs {len(b)}'))
                check.fail(res, 'reports_differ/cli', f'{ctx} report differs from the client report: {dl[0]!r} vs {dl[1]!r}')
            if o['json_ok'] is not True:
                check.fail(res, f'cli/json_not_at_requested_path/{outarg}', f'{ctx} no valid JSON next to the report; files created: {o["created"]}')
            extra = [x for x in o['created'] if x.endswith('.json') and os.path.join(o['root'], x) != os.path.splitext(o['target'])[0] + '.json']
            if extra:
                check.fail(res, f'cli/json_elsewhere/{outarg}', f'{ctx} a JSON file was written where it was not asked for: {extra}')
            if kind == 'okHTML' and not o['html_at_start_dir']:
                check.fail(res, 'cli/relative_output_parameter_misplaced', f'{ctx} relative "HTML Output File" did not land in the starting directory; files: {o["created"]}')
        if o['stray_in_src']:
            check.fail(res, 'cli/output_in_source_directory', f'{ctx} files appeared in the source directory: {o["stray_in_src"]}')
    d = check.digest([kind, entry, outarg, start, prior])
    res['states'].append(d)
    res['nontrivial'].append(d)
    res['sample'] = {'input': kind, 'entry_point': entry, 'output_argument': outarg, 'starting_dir': start, 'asked_before_in_same_interpreter': prior}
    return res


def plan(tier, seed):
    P = []
    for k in INPUTS:
        for start in STARTS:
            for outarg in OUTARGS:
                P.append({'kind': k, 'entry': 'cli', 'start': start, 'outarg': outarg})
            for entry in ('client', 'main', 'mc'):
                for prior in PRIORS:
                    P.append({'kind': k, 'entry': entry, 'start': start, 'prior': prior})
    return P


def run(tier, seed, budget=None):
    return e1.run_generic(
        sys.modules[__name__], PID, tier, seed, budget,
        rule=('finite complete product: 10 inputs (6 succeeding incl. add-ons, S-DAC-GT, one with a relative HTML output parameter, one relying on defaults; 4 failing '
              'while reading / calculating / printing / through a bare sys.exit()) x {python -m geophires_x as a real subprocess x 7 output arguments (none, '
              'relative, sub-directory, absolute, a name equal to a directory component, a name without extension, the same below a directory with a dot in its name); GeophiresXClient, direct main(), the client as embedded by the '
              'Monte-Carlo work_package, each x {fresh interpreter, interpreter that already served a many-non-defaults request, a request with output-unit directives, interpreter that already '
              'served an aborting request}} x 3 starting directories (one with a dot in its name); reports compared across all entry points, file placement and '
              'exit status on the CLI'),
        assumptions=['the direct main() entry point is given absolute paths (as the client does)',
                     'quick and thorough tiers are the same complete product'])
