"""Shared harness pieces for the Monte-Carlo properties (C13, C14): E4 interleaving executions and E3 controlled pool."""
import argparse
import os
import sys
import tempfile
from pathlib import Path

from vf.engines import ilvx


# ------------------------------------------------------------------------------------------------- E4 harness
def ilv_execution(prefix, spec):
    """one complete interleaving of K virtual workers appending their rows; returns a verdict dict (picklable)."""
    import numpy as np
    import geophires_monte_carlo.MC_GeoPHIRES3 as MC
    K = spec['K']
    fail = set(spec.get('fail', []))
    nout = spec.get('n_outputs', 2)
    d = tempfile.mkdtemp(prefix='ilv-')
    out = os.path.join(d, 'MC_Result.txt')
    lockp = os.path.join(d, '.lock')
    base_in = os.path.join(d, 'base.txt')
    with open(base_in, 'w') as f:
        f.write('Reservoir Model, 4\n')
    outputs = [f'Out {chr(65 + i % 26)}{i}' for i in range(nout)]
    inputs = [['Gradient 1', 'uniform', '30', '60']]
    header = ', '.join(outputs + [i[0] for i in inputs]) + '\n'
    with open(out, 'w') as f:
        f.write(header)
    counter = {'n': 0}

    class StubResult:
        def __init__(self, p):
            self.output_file_path = p

    class StubClient:
        def __init__(self, *a, **k):
            pass

        def get_geophires_result(self, params):
            wid = ex.me().wid
            if wid in fail:
                raise RuntimeError('GEOPHIRES encountered an exception: scripted failure')
            p = str(params.as_file_path())
            with open(p) as f:
                sample = f.read().splitlines()[-1].split(',')[1].strip()
            rp = p + '.out'
            width = spec.get('value_width', {}).get(str(wid), 0)
            with open(rp, 'w') as f:
                for i, o in enumerate(outputs):
                    val = f'{float(sample) * (i + 1):.4f}'
                    if width:
                        val = val + '0' * width
                    f.write(f'      {o}:      {val} unit\n')
            return StubResult(rp)

    MC.GeophiresXClient = StubClient
    args = argparse.Namespace(Code_File='x/GEOPHIRESv3.py', Input_file=base_in, MC_Settings_file='', MC_OUTPUT_FILE=out)
    pass_list = [inputs, outputs, args, out, d + os.sep, 'python']
    np.random.seed(spec.get('seed', 0))
    devnull = open(os.devnull, 'w')
    old_stdout = sys.stdout
    sys.stdout = devnull
    fns = [(lambda: MC.work_package(pass_list)) for _ in range(K)]
    ex = ilvx.Execution(fns, prefix, horizon=spec.get('horizon', 3000))
    undo = ilvx.install(ex, [out, lockp])
    try:
        ex.run()
    finally:
        undo()
        sys.stdout = old_stdout
    # process exit of every virtual worker: os._exit semantics
    lost_buffers = 0
    for w in ex.workers:
        for h in w.handles:
            if h.abandon():
                lost_buffers += 1
    with open(out) as f:
        lines = f.read().splitlines(keepends=True)
    fails = []
    if ex.aborted:
        fails.append(('ilv/aborted', ex.aborted))
    if not lines or lines[0] != header:
        fails.append(('ilv/header-damaged', f'header is {lines[:1]!r}, expected {header!r}'))
    body = lines[1:]
    remaining = list(body)
    ok_workers = [w for w in ex.workers if w.returned]
    for w in ok_workers:
        if not w.intended:
            fails.append(('ilv/lost-row/lock-not-acquired', f'worker {w.wid} simulated successfully but never got the file handle (lock not acquired); no row written'))
            continue
        row = w.intended[0]
        if row in remaining:
            remaining.remove(row)
        else:
            cause = 'unflushed-at-exit' if lost_buffers else 'missing'
            fails.append((f'ilv/lost-row/{cause}', f'worker {w.wid} simulated successfully and wrote its row to the handle, but the result file does not contain it; file body {body!r}'))
    for w in ex.workers:
        if w.exc and w.wid not in fail:
            fails.append(('ilv/worker-exception', f'worker {w.wid} raised {w.exc}'))
    if remaining:
        fails.append(('ilv/torn-or-extra-row', f'result file contains lines that are not the row of any successful iteration: {remaining!r}'))
    import shutil
    shutil.rmtree(d, ignore_errors=True)
    preempt = sum(1 for (order, still, choice, _k) in ex.points if still and choice != 0)
    return {'fails': fails, 'points': [(p[0], p[1], p[2], p[3]) for p in ex.points], 'steps': ex.steps, 'preemptions': preempt,
            'rows': len(body), 'ok_workers': len(ok_workers), 'clock_jumps': ex.clock_jumps,
            'outcome': (len(body), len(ok_workers), tuple(sorted(k for k, _ in fails)))}


def ilv_explore(spec, bound, max_execs=None, root=None, root_only=False):
    """exhaustive exploration up to the preemption bound; returns summary (runs in the calling process)."""
    summary = {'executions': 0, 'steps': 0, 'fails': {}, 'outcomes': {}, 'max_points': 0, 'by_preemptions': {}, 'capped': False}
    results = {}

    def run_one(prefix):
        v = ilv_execution(prefix, spec)
        results['last'] = v
        summary['first_points'] = summary.get('first_points') or v['points']

        class _E:
            points = v['points']
        return _E

    def on_exec(prefix, ex):
        v = results['last']
        summary['executions'] += 1
        summary['steps'] += v['steps']
        summary['max_points'] = max(summary['max_points'], len(v['points']))
        summary['by_preemptions'][v['preemptions']] = summary['by_preemptions'].get(v['preemptions'], 0) + 1
        oc = str(v['outcome'])
        summary['outcomes'][oc] = summary['outcomes'].get(oc, 0) + 1
        for key, msg in v['fails']:
            if key not in summary['fails']:
                summary['fails'][key] = {'count': 0, 'prefix': [p[2] for p in v['points']], 'msg': msg, 'preemptions': v['preemptions'],
                                         'ops': [f'w{p[0][p[2]]}:{p[3]}' for p in v['points']]}
            summary['fails'][key]['count'] += 1

    n, capped = ilvx.explore(run_one, bound, on_exec, max_execs=max_execs, root=root, root_only=root_only)
    summary['capped'] = capped
    return summary


# ------------------------------------------------------------------------------------------------- E3 harness
DIST_NAMES = ('normal', 'uniform', 'triangular', 'lognormal', 'binomial', 'random', 'random_sample', 'standard_normal',
              'beta', 'gamma', 'exponential', 'poisson', 'integers', 'randint', 'choice', 'rand', 'randn')


def make_np_proxy(real_np, script=None):
    """
    Proxy for the name `np` inside the Monte-Carlo module. Everything delegates to numpy; calls of sampling functions
    (on np.random or on any generator obtained from it) are recorded in poolx.CURRENT['log'] and, when `script` is
    given, answered by script(task_ordinal, call_index, name, args) instead (scripted environment answers).
    """
    from vf.engines import poolx
    state = {'n': {}}

    def wrap(name, fn):
        def call(*a, **k):
            log = poolx.CURRENT.get('log')
            ordinal = poolx.CURRENT.get('task_ordinal')
            if script is not None and ordinal is not None:
                idx = state['n'].get(ordinal, 0)
                state['n'][ordinal] = idx + 1
                out = script(ordinal, idx, name, a)
            else:
                out = fn(*a, **k)
            if log is not None:
                # (name, arguments, value returned to the driver)
                log.append((name, tuple(float(x) if isinstance(x, (int, float)) else repr(x) for x in a),
                            float(out) if isinstance(out, (int, float)) or getattr(out, 'shape', None) == () else None))
            return out
        return call

    class GenProxy:
        def __init__(self, g):
            object.__setattr__(self, '_g', g)

        def __getattr__(self, name):
            v = getattr(self._g, name)
            if name in DIST_NAMES and callable(v):
                return wrap(name, v)
            return v

    class RandomProxy:
        def __getattr__(self, name):
            v = getattr(real_np.random, name)
            if name in DIST_NAMES and callable(v):
                return wrap(name, v)
            if name in ('default_rng', 'RandomState', 'Generator'):
                def mk(*a, **k):
                    log = poolx.CURRENT.get('log')
                    if log is not None:
                        log.append((name, tuple(repr(x) for x in a)))
                    return GenProxy(v(*a, **k))
                return mk
            if name == 'seed':
                def sd(*a, **k):
                    log = poolx.CURRENT.get('log')
                    if log is not None:
                        log.append(('seed', tuple(repr(x) for x in a)))
                    return v(*a, **k)
                return sd
            return v

    class NpProxy:
        random = RandomProxy()

        def __getattr__(self, name):
            return getattr(real_np, name)

    return NpProxy()


BASES = {
    'elec': ('GEOPHIRESv3.py', ['Reservoir Model, 4', 'Drawdown Parameter, 0.02', 'Reservoir Depth, 3', 'Gradient 1, 55', 'End-Use Option, 1',
                                'Power Plant Type, 1', 'Plant Lifetime, 4', 'Time steps per year, 2', 'Number of Production Wells, 2',
                                'Number of Injection Wells, 2', 'Print Output to Console, 0']),
    # the same, with two lines whose names are prefixes of one another, the longer one first ('#' = "mean from the input file" must find its own line)
    'elecvol': ('GEOPHIRESv3.py', ['Reservoir Model, 4', 'Drawdown Parameter, 0.02', 'Reservoir Depth, 3', 'Gradient 1, 55', 'End-Use Option, 1',
                                   'Power Plant Type, 1', 'Plant Lifetime, 4', 'Time steps per year, 2', 'Number of Production Wells, 2',
                                   'Number of Injection Wells, 2', 'Reservoir Volume Option, 3', 'Reservoir Volume, 1e9', 'Print Output to Console, 0']),
    'heat': ('GEOPHIRESv3.py', ['Reservoir Model, 3', 'Drawdown Parameter, 0.00006', 'Reservoir Depth, 2.5', 'Gradient 1, 45', 'End-Use Option, 2',
                                'Power Plant Type, 9', 'Plant Lifetime, 4', 'Time steps per year, 2', 'Print Output to Console, 0']),
    'hip': ('hip_ra_x.py', ['Reservoir Temperature, 250.0', 'Rejection Temperature, 60.0', 'Reservoir Porosity, 10.0', 'Reservoir Area, 55.0',
                            'Reservoir Thickness, 0.25', 'Reservoir Life Cycle, 25']),
}


def mc_main_execution(spec):
    """
    One complete run of the real Monte-Carlo main() with the controlled pool. Must run inside a forked child.
    spec: base, inputs [[name, dist, p1, p2(, p3)]], outputs [labels], K, assignment, seed, script (None | dict), real_pool (bool)
    """
    import concurrent.futures
    import json
    import numpy as real_np
    import logging
    logging.disable(logging.CRITICAL)
    import matplotlib
    matplotlib.use('Agg')
    d = tempfile.mkdtemp(prefix='mc-')
    relname = None
    if spec.get('relative_out'):
        # a RELATIVE result-file name in the settings file: main() resolves it against the directory of the Monte-Carlo package (it chdir()s
        # there). The package is therefore imported from a private view (a directory of links to the real files), so that the file lands in
        # this execution's own directory; a worker that is no longer in that directory when it appends its row writes somewhere else.
        import geophires_monte_carlo as _g
        real = os.path.dirname(os.path.abspath(_g.__file__))
        pk = os.path.join(d, 'view', 'geophires_monte_carlo')
        os.makedirs(pk)
        for x in os.listdir(real):
            if os.path.isfile(os.path.join(real, x)):
                os.symlink(os.path.join(real, x), os.path.join(pk, x))
        for k in [k for k in sys.modules if k == 'geophires_monte_carlo' or k.startswith('geophires_monte_carlo.')]:
            del sys.modules[k]
        sys.path.insert(0, os.path.join(d, 'view'))
        relname = f'MC_Result_vf{os.getpid()}.txt'
    import geophires_monte_carlo.MC_GeoPHIRES3 as MC
    from vf.engines import poolx
    # requests the same process served earlier (a long-lived caller): run completely, results discarded
    for prior in spec.get('before') or []:
        mc_main_execution(dict(prior))
        poolx.CURRENT.update({'outcomes': None, 'chunks': None, 'assignment_used': None})
    code, base_lines = BASES[spec['base']]
    base_in = os.path.join(d, 'base.txt')
    with open(base_in, 'w') as f:
        f.write('\n'.join(base_lines) + '\n')
    out = os.path.join(d, 'MC_Result.txt')
    if relname:
        out = os.path.join(os.path.dirname(os.path.abspath(MC.__file__)), relname)
    settings = os.path.join(d, 'settings.txt')
    with open(settings, 'w') as f:
        for i in spec['inputs']:
            f.write('INPUT, ' + ', '.join(str(x) for x in i) + '\n')
        for o in spec['outputs']:
            f.write(f'OUTPUT, {o}\n')
        f.write(f"ITERATIONS, {spec['K']}\n")
        f.write(f'MC_OUTPUT_FILE, {relname or out}\n')
    script = None
    if spec.get('script'):
        sc = spec['script']     # {'ok': [[values per input] per ordinal], 'bad': [ordinals], 'bad_value': x}

        def script(ordinal, idx, name, a):
            if ordinal in sc['bad'] and idx == 0:
                return sc['bad_value']
            return sc['ok'][ordinal][idx]
    MC.np = make_np_proxy(real_np, script)
    if spec.get('cpu_count'):
        # environment answer: the number of CPUs the pool sizing sees (rebinding the name `os` inside the MC module only)
        import types
        real_os = MC.os
        fake = types.ModuleType('os')
        fake.__dict__.update(real_os.__dict__)
        fake.cpu_count = lambda: int(spec['cpu_count'])
        MC.os = fake
    if not spec.get('real_pool'):
        concurrent.futures.ProcessPoolExecutor = poolx.ControlledPool
        poolx.CURRENT['assignment'] = spec['assignment'] if isinstance(spec['assignment'], dict) else list(spec['assignment'])
    real_np.random.seed(int(spec.get('seed', 0)))
    res = {'main_exc': None}
    cwd0, argv0 = os.getcwd(), list(sys.argv)
    try:
        MC.main([os.path.join(d, code), base_in, settings, out])
    except BaseException as e:  # noqa
        res['main_exc'] = f'{type(e).__name__}: {e}'
    res['outcomes'] = [(o[0], o[1], o[2][0], o[2][1], o[3]) for o in (poolx.CURRENT.get('outcomes') or [])]
    res['chunks'] = poolx.CURRENT.get('chunks')
    res['assignment_used'] = poolx.CURRENT.get('assignment_used')
    try:
        with open(out) as f:
            res['file'] = f.read()
    except OSError:
        res['file'] = None
    try:
        with open(os.path.splitext(out)[0] + '.json') as f:
            res['json'] = json.load(f)
    except (OSError, ValueError):
        res['json'] = None
    res['base_in'] = base_lines
    res['code'] = code
    if relname:
        # rows that went astray: the same relative name resolved against some other directory of the source tree
        from vf.core import runner as _r
        res['stray'] = []
        for dp, dn, fn in os.walk(_r.repo_src()):
            for x in fn:
                if x.startswith(os.path.splitext(relname)[0]):
                    res['stray'].append(os.path.relpath(os.path.join(dp, x), _r.repo_src()))
                    os.unlink(os.path.join(dp, x))
    import shutil
    shutil.rmtree(d, ignore_errors=True)
    return res


def freeze_clock(t=1_700_000_000.0):
    """environment answer "the clock does not advance between two operations": every time source the library can reach returns one instant."""
    import time as _t
    import datetime as _dt
    st = _t.localtime(t)
    real_strftime, real_dt, real_localtime = _t.strftime, _dt.datetime, _t.localtime
    _t.time = lambda: t
    _t.time_ns = lambda: int(t * 1e9)
    _t.localtime = lambda secs=None: st if secs is None else real_localtime(secs)
    _t.strftime = lambda fmt, tup=None: real_strftime(fmt, st if tup is None else tup)

    class Frozen(real_dt):
        @classmethod
        def now(cls, tz=None):
            return real_dt.fromtimestamp(t, tz)

        @classmethod
        def utcnow(cls):
            return real_dt.utcfromtimestamp(t)

        @classmethod
        def today(cls):
            return real_dt.fromtimestamp(t)
    _dt.datetime = Frozen
    for mod in list(sys.modules.values()):
        n = getattr(mod, '__name__', '')
        if n.split('.')[0] in ('geophires_monte_carlo', 'geophires_x', 'geophires_x_client', 'hip_ra_x', 'hip_ra'):
            for k, v in list(vars(mod).items()):
                if v is real_dt:
                    setattr(mod, k, Frozen)


REQ_SUPPORT = {'A': (40.0, 45.0), 'B': (55.0, 60.0)}


def mc_client_sequence(spec):
    """
    Two Monte-Carlo requests WITHOUT an explicit result file, made and served through the public client in the order spec['order'] (a list of
    'newA' | 'newB' | 'runA' | 'runB'), under the controlled pool. spec['clock']: 'frozen' (all operations within one clock instant) | 'real'.
    Returns the result-file path and content of either request after the whole sequence.
    """
    import concurrent.futures
    import numpy as real_np
    import logging
    logging.disable(logging.CRITICAL)
    import matplotlib
    matplotlib.use('Agg')
    import geophires_monte_carlo as GMC
    import geophires_monte_carlo.MC_GeoPHIRES3 as MC
    from vf.engines import poolx
    if spec['clock'] == 'frozen':
        freeze_clock()
    MC.np = make_np_proxy(real_np, None)
    concurrent.futures.ProcessPoolExecutor = poolx.ControlledPool
    d = tempfile.mkdtemp(prefix='mcq-')
    K = spec['K']
    files = {}
    for who, (lo, hi) in REQ_SUPPORT.items():
        b = os.path.join(d, f'base_{who}.txt')
        with open(b, 'w') as f:
            f.write('\n'.join(BASES['elec'][1]) + '\n')
        st = os.path.join(d, f'settings_{who}.txt')
        with open(st, 'w') as f:
            f.write(f'INPUT, Gradient 1, uniform, {lo}, {hi}\nOUTPUT, Average Net Electricity Production\nITERATIONS, {K}\n')
        files[who] = (Path(b), Path(st))
    reqs, res = {}, {'ops': [], 'path': {}, 'file': {}}
    real_np.random.seed(int(spec.get('seed', 0)))
    for op in spec['order']:
        kind, who = op[:3], op[3]
        try:
            if kind == 'new':
                reqs[who] = GMC.MonteCarloRequest(GMC.SimulationProgram.GEOPHIRES, files[who][0], files[who][1])
                res['path'][who] = str(reqs[who].output_file)
            else:
                poolx.CURRENT['assignment'] = list(spec['assignment'])
                poolx.CURRENT.update({'outcomes': None, 'chunks': None, 'assignment_used': None})
                GMC.GeophiresMonteCarloClient().get_monte_carlo_result(reqs[who])
            res['ops'].append([op, 'ok'])
        except BaseException as e:  # noqa
            res['ops'].append([op, f'{type(e).__name__}: {str(e)[:200]}'])
    for who in reqs:
        try:
            with open(res['path'][who]) as f:
                res['file'][who] = f.read()
        except OSError:
            res['file'][who] = None
    stray = [x for x in os.listdir(tempfile.gettempdir()) if x.startswith('MC_')]
    res['stray_in_tmp'] = stray
    reqs.clear()
    import shutil
    shutil.rmtree(d, ignore_errors=True)
    return res


def parse_result_file(text, n_outputs_hint=None):
    """independent parser of the MC result file: header, rows [(tokens, {input: value str}, raw)], statistics block."""
    lines = text.splitlines()
    header = [h.strip() for h in lines[0].split(',')] if lines else []
    rows, stats, i = [], {}, 1
    while i < len(lines):
        l = lines[i]
        if '(' in l and l.rstrip().endswith(')'):
            head, _, tail = l.partition('(')
            toks = [t.strip() for t in head.strip().rstrip(',').split(',')] if head.strip().rstrip(',').strip() else []
            ins = {}
            for part in tail.rstrip(')').split(';'):
                if part.strip():
                    k, _, v = part.partition(':')
                    ins[k.strip()] = v.strip()
            rows.append((toks, ins, l))
            i += 1
            continue
        break
    cur = None
    while i < len(lines):
        l = lines[i]
        if l.startswith('bin values') or l.startswith('bin edges') or l.startswith(' ') and ':' not in l or l.startswith('['):
            i += 1
            continue
        if l.startswith('     ') and cur is not None and ':' in l:
            k, _, v = l.strip().partition(':')
            stats[cur][k.strip()] = v.strip()
        elif l.rstrip().endswith(':') and not l.startswith(' '):
            cur = l.rstrip()[:-1]
            stats[cur] = {}
        i += 1
    return header, rows, stats


def ilv_roots(spec, bound):
    """the default execution and the list of child prefixes of [] within the bound (one sub-tree per task)."""
    v = ilv_execution([], spec)
    pts = v['points']
    roots = []
    for i in range(len(pts)):
        order, still, _c, _k = pts[i]
        cost = ilvx.preemptions_before(pts, i) + (1 if still else 0)
        if cost > bound:
            continue
        for alt in range(1, len(order)):
            roots.append([p[2] for p in pts[:i]] + [alt])
    return roots


def ilv_task(payload):
    """one sub-tree of the interleaving space, explored in a forked child; result in check.new_result() form."""
    from vf.core import runner, check
    res = check.new_result()
    spec, bound, root = payload['spec'], payload['bound'], payload.get('root')

    def job(_):
        return ilv_explore(spec, bound, root=root, root_only=payload.get('root_only', False), max_execs=payload.get('max_execs'))
    tag = runner.fork_exec(job, None, timeout=3000)
    if tag[0] != 'ok':
        res['infra'].append(f'interleaving exploration failed: {tag[1]} {tag[2] if len(tag) > 2 else ""}')
        return res
    s = tag[1]
    res['execs'] = s['executions']
    res['accepted'] = s['executions']
    res['steps'] = s['steps']
    for oc, n in s['outcomes'].items():
        check.bump(res, 'ilv_outcome:' + oc, n)
    for pre, n in s['by_preemptions'].items():
        check.bump(res, f'ilv_executions_with_{pre}_preemptions', n)
    if s['capped']:
        check.bump(res, 'ilv_capped_subtrees')
    for key, f in s['fails'].items():
        check.fail(res, key, f"{f['msg']} | schedule ({f['preemptions']} preemptions, {f['count']} executions in this sub-tree): {' '.join(f['ops'])} | choices={f['prefix']}")
    d = check.digest([spec, root])
    res['states'] = [check.digest([spec, root, oc]) for oc in s['outcomes']]
    res['nontrivial'] = [check.digest([spec, root, 'pre', k]) for k in s['by_preemptions'] if int(k) > 0] or []
    res['sample'] = {'interleaving_subtree': {'spec': spec, 'bound': bound, 'root_choices': root, 'executions': s['executions'],
                                              'first_schedule': [f'w{p[0][p[2]]}:{p[3]}' for p in (s.get('first_points') or [])][:40]}}
    return res
