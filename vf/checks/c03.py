"""C03 — capital and O&M totals are the sum of their parts (E1, unary)."""
import sys

from vf.core import e1
from vf import families as F
from vf.checks import econ_common as EC

PID = 'C03'


def monitor(m, payload):
    return EC.mon_c03(m, payload)


def task(payload):
    return e1.unary_task(payload, monitor, want=())


OVERRIDES = {
    'Total Capital Cost': ['50', '0', '1000'],
    'Total O&M Cost': ['3', '0', '100'],
    'Well Drilling and Completion Capital Cost': ['7', '0', '200'],
    'Injection Well Drilling and Completion Capital Cost': ['4', '0', '200'],     # bounds: a user figure of 0 is a figure, not "not given"
    'Reservoir Stimulation Capital Cost': ['2', '0'],
    'Surface Plant Capital Cost': ['30', '0'],
    'Field Gathering System Capital Cost': ['1.5', '0'],
    'Exploration Capital Cost': ['4', '0'],
    'Wellfield O&M Cost': ['0.4', '0'],
    'Surface Plant O&M Cost': ['0.9', '0'],
    'Water Cost': ['0.05', '0'],
}
FACTORS = {k: ['0', '10', '0.5', '2.5'] for k in (
    'Well Drilling and Completion Capital Cost Adjustment Factor',
    'Injection Well Drilling and Completion Capital Cost Adjustment Factor',
    'Reservoir Stimulation Capital Cost Adjustment Factor', 'Surface Plant Capital Cost Adjustment Factor',
    'Field Gathering System Capital Cost Adjustment Factor', 'Exploration Capital Cost Adjustment Factor',
    'Wellfield O&M Cost Adjustment Factor', 'Surface Plant O&M Cost Adjustment Factor', 'Water Cost Adjustment Factor')}
ADJ = {
    'Investment Tax Credit Rate': ['0.3', '1', '0'],
    'One-time Grants Etc': ['5', '-1000', '1000'],
    'Other Incentives': ['5', '-1000', '1000'],
    'One-time Flat License Fees Etc': ['5', '-1000', '1000'],
    'Annual License Fees Etc': ['0.5', '-1000', '1000'],
    'Tax Relief Per Year': ['0.5', '100'],
    'Maximum Drawdown': ['0.05', '0.01'],
    'Surface Piping Length': ['10'],
    'Number of Injection Wells': ['0', '1', '5'],      # 0 is the documented minimum (the pinned standard well-bore model divides by it: not accepted)
    'Number of Production Wells': ['1', '5'],
}
INTER1 = ('Total Capital Cost', 'Investment Tax Credit Rate', 'One-time Grants Etc', 'One-time Flat License Fees Etc',
          'Other Incentives', 'Maximum Drawdown', 'Total O&M Cost', 'Annual License Fees Etc', 'Tax Relief Per Year')
INTER2 = ('Well Drilling and Completion Capital Cost', 'Injection Well Drilling and Completion Capital Cost',
          'Well Drilling and Completion Capital Cost Adjustment Factor',
          'Injection Well Drilling and Completion Capital Cost Adjustment Factor')
DEPTHS = ['0.3', '0.499', '0.5', '3', '7', '7.001', '10']
# a component given directly together with its adjustment factor (the figure wins), and together with a user total (the total wins)
COMPONENTS = [('Reservoir Stimulation Capital Cost', '2'), ('Surface Plant Capital Cost', '30'), ('Field Gathering System Capital Cost', '1.5'),
              ('Exploration Capital Cost', '4'), ('Wellfield O&M Cost', '0.4'), ('Surface Plant O&M Cost', '0.9'), ('Water Cost', '0.05')]
OVERRIDE_COMBOS = []
for _n, _v in COMPONENTS:
    for _f in ('2.5', '0'):
        OVERRIDE_COMBOS.append({_n: _v, _n + ' Adjustment Factor': _f})
    OVERRIDE_COMBOS.append({_n: _v, ('Total O&M Cost' if 'O&M' in _n or _n == 'Water Cost' else 'Total Capital Cost'): '3' if ('O&M' in _n or _n == 'Water Cost') else '50'})
OVERRIDE_COMBOS.append({_n: _v for _n, _v in COMPONENTS})
OVERRIDE_COMBOS.append({**{_n: _v for _n, _v in COMPONENTS}, **{_n + ' Adjustment Factor': '2.5' for _n, _v in COMPONENTS}})


def alphabets(fam):
    a = {}
    a.update(OVERRIDES)
    a.update(FACTORS)
    a.update(ADJ)
    if fam['plant'] == 5:
        a['Absorption Chiller Capital Cost'] = ['0', '10']
        a['Absorption Chiller O&M Cost'] = ['0', '2']
    if fam['plant'] == 6:
        a['Heat Pump Capital Cost'] = ['0', '10']
    if fam['plant'] == 7:
        a['Total District Heating Network Cost'] = ['0', '25']
        a['District Heating Network Piping Length'] = ['2']
        a['District Heating Road Length'] = ['8']
        a['District Heating O&M Cost'] = ['0.7']
    return a


def plan(tier, seed):
    P = []
    shape = (5, 3, 2)
    ress = (4,) if tier == 'quick' else (3, 4)
    for em in F.ECON_MODELS:
        for pair in F.PAIRS:
            for r in ress:
                fam = {'econ': em, 'enduse': pair[0], 'plant': pair[1], 'res': r, 'shape': list(shape)}
                P.append({'fam': fam, 'changes': {}, 'base': True})
                al = alphabets(fam)
                if em == 1 or tier == 'thorough':
                    for ch in e1.deviations(al, 1):
                        P.append({'fam': fam, 'changes': ch})
                inter = {k: al[k][:2] for k in INTER1}
                if (em == 2 and pair[1] in (1, 9, 5, 7)) or tier == 'thorough':
                    for ch in e1.deviations(inter, 2):
                        P.append({'fam': fam, 'changes': ch})
                if r == 4:
                    for ch in OVERRIDE_COMBOS:
                        P.append({'fam': fam, 'changes': dict(ch)})
                inter2 = {k: al[k][:2] for k in INTER2}
                if (em == 3 and pair[1] in (2, 6)) or tier == 'thorough':
                    for ch in e1.deviations(inter2, 2):
                        P.append({'fam': fam, 'changes': ch})
    # well-cost correlations x depth (gradient low enough that the temperature cap does not move the depth)
    for corr in range(1, 18):
        for depth in DEPTHS:
            for pair in ((1, 1), (2, 9)):
                fam = {'econ': 1, 'enduse': pair[0], 'plant': pair[1], 'res': 4, 'shape': [3, 1, 1]}
                ch = {'Well Drilling Cost Correlation': str(corr), 'Reservoir Depth': depth, 'Gradient 1': '28',
                      'Maximum Temperature': '500'}
                if float(depth) < 2:
                    ch['Gradient 1'] = '250'
                    ch['Injection Temperature'] = '40'
                P.append({'fam': fam, 'changes': ch})
                if tier == 'thorough' or depth in ('0.499', '3'):
                    c2 = dict(ch)
                    c2['Well Drilling and Completion Capital Cost Adjustment Factor'] = '2.5'
                    P.append({'fam': fam, 'changes': c2})
                    c3 = dict(c2)
                    c3['All-in Vertical Drilling Costs'] = '1846'
                    P.append({'fam': fam, 'changes': c3})
    # laterals on the standard (open-loop) economics: geometry x section count x section length x cased x per-metre figure / correlation
    for pair in ((1, 1), (2, 9)):
        fam = {'econ': 1, 'enduse': pair[0], 'plant': pair[1], 'res': 4, 'shape': [3, 1, 1]}
        for config in ('1', '2', '3', '4'):
            for nsec in ('1', '3'):
                for sec_m in ('750', '300'):
                    for cased in ('True', 'False'):
                        for cost in ({}, {'All-in Nonvertical Drilling Costs': '900'}, {'Well Drilling Cost Correlation': '3'},
                                     {'Well Drilling and Completion Capital Cost Adjustment Factor': '2.5'}):
                            if tier == 'quick' and pair == (2, 9) and (cost or sec_m == '300'):
                                continue
                            ch = {'Well Geometry Configuration': config, 'Number of Multilateral Sections': nsec, 'Nonvertical Length per Multilateral Section': sec_m,
                                  'Multilaterals Cased': cased}
                            ch.update(cost)
                            P.append({'fam': fam, 'changes': ch})
    # closed-loop (SBT) well field: vertical sections + laterals + junction legs, every correlation, cased / uncased, section counts
    for fam in F.sbt_grid(econs=(1, 2, 3) if tier == 'thorough' else (3,)):
        P.append({'fam': fam, 'changes': {}, 'base': True})
        al = alphabets(fam)
        for ch in e1.deviations(al, 1):
            P.append({'fam': fam, 'changes': ch})
        for ch in SBT_STRUCT + OVERRIDE_COMBOS:
            P.append({'fam': fam, 'changes': dict(ch)})
        if (fam['enduse'], fam['plant']) == (1, 2):
            for corr in range(1, 18):
                for nsec in ('1', '2', '3') if tier == 'thorough' or corr in (3, 10, 5) else ('2',):
                    for cased in ('False', 'True'):
                        P.append({'fam': fam, 'changes': {'Well Drilling Cost Correlation': str(corr), 'Number of Multilateral Sections': nsec, 'Multilaterals Cased': cased}})
    return P


SBT_STRUCT = [
    {'Number of Multilateral Sections': None},
    {'Number of Injection Wells': '0'},
    {'All-in Nonvertical Drilling Costs': '700'},
    {'All-in Nonvertical Drilling Costs': '1300', 'Multilaterals Cased': 'True'},
    {'All-in Vertical Drilling Costs': '1846', 'Well Drilling Cost Correlation': '5'},
    {'Vertical Section Length': '0.45 kilometer', 'Junction Depth': '0.45 kilometer', 'Lateral Endpoint Depth': '0.55 kilometer', 'Reservoir Depth': '0.45 kilometer', 'Gradient 1': '300'},
    {'Well Drilling and Completion Capital Cost Adjustment Factor': '2.5'},
    {'Well Drilling and Completion Capital Cost Adjustment Factor': '2.5', 'Injection Well Drilling and Completion Capital Cost Adjustment Factor': '0.5'},
    {'Number of Production Wells': '3', 'Number of Injection Wells': '2'},
    {'Lateral Spacing': '150', 'Number of Multilateral Sections': '4'},
]


def run(tier, seed, budget=None):
    return e1.run_generic(
        sys.modules[__name__], PID, tier, seed, budget,
        rule=('economic model x 32 end-use/plant pairs (x reservoir models in thorough) x every single deviation over the '
              'override / adjustment-factor / incentive alphabets, all pairs over the two interaction sets {total capex, ITC, '
              'grants, fees, incentives, redrilling, total O&M, annual fees, tax relief} and {per-well costs, both adjustment '
              'factors}, and well-cost correlation 1..17 x depth {0.3,0.499,0.5,3,7,7.001,10 km}. Non-trivial = accepted with '
              'non-zero totals; distinct = digest of (model, end-use, plant class, cost inputs present, CCap, Coam, redrill)'),
        assumptions=['own copy of the published drilling-cost curve coefficients (vf/oracles/econ_ref.py)',
                     'which inputs were user-fixed is read from the generated input file, not from model flags'])
