"""C04 — cash flow, NPV, IRR, VIR, MOIC and payback are mutually consistent (E1, unary)."""
import sys

from vf.core import e1
from vf import families as F
from vf.checks import econ_common as EC
from vf.checks.c01 import ADDON_GAIN

PID = 'C04'


def monitor(m, payload):
    return EC.mon_c04(m, payload)


def task(payload):
    return e1.unary_task(payload, monitor, post=EC.post_c04, want=('report',))


PRICE = {}
for prod in ('Electricity', 'Heat', 'Cooling'):
    PRICE[f'Starting {prod} Sale Price'] = ['0', '0.2', '100']
    PRICE[f'Ending {prod} Sale Price'] = ['0', '0.02', '100']
    PRICE[f'{prod} Escalation Start Year'] = ['0', '1', '5', '6']
    PRICE[f'{prod} Escalation Rate Per Year'] = ['0', '0.05', '100']
MISC = {
    'Discount Initial Year Cashflow': ['True'],
    'Fixed Internal Rate': ['0', '100', '12.5'],
    'Total Capital Cost': ['5', '1000'],
    'Total O&M Cost': ['0', '50'],
    'Investment Tax Credit Rate': ['0.3'],
}
CARBON = {'Do Carbon Price Calculations': 'True', 'Starting Carbon Credit Value': '0.01', 'Ending Carbon Credit Value': '0.05',
          'Carbon Escalation Rate Per Year': '0.01', 'Carbon Escalation Start Year': '1'}


def ptc(dur, adj, big=False):
    v = '10' if big else '0.04'
    return {'Production Tax Credit Electricity': v, 'Production Tax Credit Heat': '0.5', 'Production Tax Credit Cooling': '0.5',
            'Production Tax Credit Duration': str(dur), 'Production Tax Credit Inflation Adjusted': str(adj)}


STRUCT = [CARBON, ADDON_GAIN, {**ADDON_GAIN, **CARBON}, {**ADDON_GAIN, 'Do S-DAC-GT Calculations': 'True', 'S-DAC-GT CAPEX': '1400', 'S-DAC-GT OPEX': '130'},
          {'Maximum Drawdown': '0.05'},
          {'Total Capital Cost': '5', 'Total O&M Cost': '0.1', 'Starting Electricity Sale Price': '0.3',
           'Ending Electricity Sale Price': '0.3', 'Starting Heat Sale Price': '0.2', 'Ending Heat Sale Price': '0.2',
           'Starting Cooling Sale Price': '0.2', 'Ending Cooling Sale Price': '0.2'}]   # pays back quickly


def plan(tier, seed):
    P = []
    if tier == 'quick':
        shapes = [(5, 3, 2), (5, 1, 1), (2, 2, 3), (1, 2, 14), (6, 1, 14)]
        dev_shapes = [(5, 3, 2)]
        ress = (4,)
    else:
        shapes = [(5, 3, 2), (5, 1, 1), (2, 2, 3), (1, 2, 14), (6, 1, 14), (30, 1, 1), (100, 1, 2), (2, 1, 1), (3, 2, 4)]
        dev_shapes = [(5, 3, 2), (5, 1, 1), (2, 2, 3)]
        ress = (3, 4)
    for em in F.ECON_MODELS:
        for pair in F.PAIRS:
            for r in ress:
                for s in shapes:
                    fam = {'econ': em, 'enduse': pair[0], 'plant': pair[1], 'res': r, 'shape': list(s)}
                    P.append({'fam': fam, 'changes': {}, 'base': True})
                    ptcs = [ptc(d, a) for d in sorted({0, 1, min(2, s[0]), s[0]}) for a in (False, True)] + [ptc(1, True, True)]
                    for st in STRUCT + ptcs:
                        ch = dict(st)
                        if 'Do AddOn Calculations' in ch:
                            ch.pop('Construction Years', None)
                            if s[2] != 1:
                                # the add-on report writer cannot print add-ons that cost something with cy != 1 on the pinned tree (see C09);
                                # add-ons that are free (gains and profit only) print, so the cy > 1 indexing of the add-on metrics is reached
                                ch.update({k: '0' for k in ch if k.startswith(('AddOn CAPEX', 'AddOn OPEX'))})
                        P.append({'fam': fam, 'changes': ch})
                    if tuple(s) in dev_shapes and (em == 1 or tier == 'thorough'):
                        al = dict(MISC)
                        for k, v in PRICE.items():
                            if ('Electricity' in k and pair[0] != 2) or ('Heat' in k and pair[0] != 1 and pair[1] != 5) \
                                    or ('Cooling' in k and pair[1] == 5):
                                al[k] = v
                        for ch in e1.deviations(al, 1):
                            P.append({'fam': fam, 'changes': ch})
                        if tier == 'thorough' and tuple(s) == (5, 3, 2):
                            pr = {k: v[:2] for k, v in al.items() if 'Sale Price' in k or 'Escalation' in k}
                            for ch in e1.deviations(pr, 2):
                                P.append({'fam': fam, 'changes': ch})
    # closed-loop (SBT) economics
    for fam in F.sbt_grid(shapes=((6, 2, 1), (2, 2, 3)) if tier == 'quick' else ((6, 2, 1), (2, 2, 3), (30, 1, 1), (1, 2, 14))):
        s = fam['shape']
        P.append({'fam': fam, 'changes': {}, 'base': True})
        ptcs = [ptc(d, a) for d in sorted({0, 1, min(2, s[0]), s[0]}) for a in (False, True)]
        for st in STRUCT + ptcs:
            ch = dict(st)
            if 'Do AddOn Calculations' in ch:
                ch.pop('Construction Years', None)
                if s[2] != 1:
                    ch.update({k: '0' for k in ch if k.startswith(('AddOn CAPEX', 'AddOn OPEX'))})
            P.append({'fam': fam, 'changes': ch})
        if s == [6, 2, 1] and (fam['econ'] == 3 or tier == 'thorough'):
            al = dict(MISC)
            for k, v in PRICE.items():
                if ('Electricity' in k and fam['enduse'] != 2) or ('Heat' in k and fam['enduse'] != 1):
                    al[k] = v
            for ch in e1.deviations(al, 1):
                P.append({'fam': fam, 'changes': ch})
    return P


def run(tier, seed, budget=None):
    return e1.run_generic(
        sys.modules[__name__], PID, tier, seed, budget,
        rule=('economic model x 32 end-use/plant pairs x shapes incl. construction years {1,2,3,14} and lifetimes {1,2,5,6} '
              '(30, 100 in thorough) x structural deviations (carbon revenue, PTC, add-ons (with construction years > 1: add-ons that cost nothing, the only ones the report writer prints there), add-ons+carbon, redrilling, a '
              'fast-payback price/cost set) and every single deviation over the price/escalation/PTC/discounting alphabets '
              '(pairs of price parameters in thorough). Non-trivial = operating-year cash flow varies; distinct = digest of '
              '(model, end-use, plant, cy, L, conventions, first cash flows, payback). Counters report how many executions had a '
              'payback crossing and a non-zero IRR'),
        assumptions=['IRR is read in the unit the report labels it with (percent)',
                     'a payback period anywhere inside a crossing year is accepted'])
