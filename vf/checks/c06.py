"""
C06 — results do not depend on the units in which inputs are written (E1, relational; finite and complete per family).
(a) every scalar input parameter x every catalogue unit of its dimension that units_ref can convert: run `P, v' U` against `P, v`;
(b) wherever the report echoes the input it must denote the same quantity (relational over the two tokenised reports);
(c) `Units:<output>, U` for every output parameter x convertible catalogue unit: pre-print results identical, every report
    line denotes the same quantity as in the base report, and lines that changed carry the requested unit.
"""
import itertools
import math
import os
import sys

from vf.core import e1, check, runner, rel, snap, rpt
from vf import families as F
from vf.oracles import report_tok as T, units_ref as UR
from vf.checks import c07

PID = 'C06'


def discover(arg):
    """child: float/int parameters of the instantiated modules with unit type, declared unit, range and the base value."""
    fam_id, lines = arg
    m, mods = c07._build(lines, read=True)
    from geophires_x.Parameter import floatParameter, intParameter
    found, outs = {}, {}
    for nm, mod in mods:
        try:
            fresh = type(mod)(m)
        except BaseException:  # noqa
            fresh = mod
        for key, p in mod.ParameterDict.items():
            if not hasattr(p, 'Name') or not isinstance(p, (floatParameter, intParameter)):
                continue
            fp = fresh.ParameterDict.get(key, p)
            decl = getattr(fp.CurrentUnits, 'value', None)
            if decl is None:
                continue
            v = p.value if not hasattr(p.value, 'int_value') else p.value.int_value
            rec = {'t': 'int' if isinstance(p, intParameter) else 'float', 'decl': str(decl), 'utype': getattr(p.UnitType, 'name', str(p.UnitType)),
                   'min': float(p.Min) if isinstance(p, floatParameter) else None, 'max': float(p.Max) if isinstance(p, floatParameter) else None,
                   'default': float(fp.DefaultValue) if isinstance(fp.DefaultValue, (int, float)) else None, 'module': nm}
            found.setdefault(p.Name.strip(), rec)
        if hasattr(mod, 'OutputParameterDict') and nm in ('reserv', 'wellbores', 'surfaceplant', 'economics'):
            for key, p in mod.OutputParameterDict.items():
                cu = getattr(getattr(p, 'CurrentUnits', None), 'value', None)
                pu = getattr(getattr(p, 'PreferredUnits', None), 'value', None)
                if cu:
                    outs[key] = [str(cu), str(pu or cu)]
    return {'params': found, 'outputs': outs}


def same_line(fb, fv, slack=1.0):
    """two printed fields denote the same quantity at printed precision"""
    if fb.kind != fv.kind:
        return False
    if fb.kind != 'number':
        return fb.raw == fv.raw
    if fb.raw == fv.raw and fb.unit == fv.unit:
        return True
    try:
        conv = UR.convert(fv.number, fv.unit, fb.unit)
    except UR.Unconvertible:
        return False
    db, dv = rpt.decimals_of(fb.raw.replace(',', '')), rpt.decimals_of(fv.raw.replace(',', ''))
    tol = 0.5 * 10 ** (-(db or 0)) * (1 + 1e-6)
    if dv is not None:
        try:
            tol += abs(UR.convert(0.5 * 10 ** (-dv), fv.unit, fb.unit) - UR.convert(0.0, fv.unit, fb.unit)) * (1 + 1e-6)
        except UR.Unconvertible:
            pass
    return abs(conv - fb.number) <= slack * tol + 1e-9 * abs(fb.number)


def compare_reports(base_rep, var_rep):
    """-> list of (kind, detail) where lines do not denote the same quantity; plus list of changed labels"""
    b, v = T.parse(base_rep), T.parse(var_rep)
    bad, changed = [], []
    bmap = {}
    for f in b.fields:
        bmap.setdefault((f.section, f.label), []).append(f)
    vmap = {}
    for f in v.fields:
        vmap.setdefault((f.section, f.label), []).append(f)
    for key in bmap:
        if key[0] in ('CASE REPORT', 'HEADER'):
            continue
        if key not in vmap:
            bad.append(('line_missing', f'{key[0]} / {key[1]} disappears'))
            continue
        fb, fv = bmap[key][0], vmap[key][0]
        if (fb.raw, fb.unit) != (fv.raw, fv.unit):
            changed.append((key, fv.unit))
            if not same_line(fb, fv):
                bad.append(('line', f'{key[0]} / {key[1]}: "{fv.raw} {fv.unit}" does not denote the same quantity as "{fb.raw} {fb.unit}"'))
    for key in vmap:
        if key not in bmap and key[0] not in ('CASE REPORT', 'HEADER'):
            bad.append(('line_added', f'{key[0]} / {key[1]} appears'))
    bt = {t.title: t for t in b.tables}
    for t in v.tables:
        o = bt.get(t.title)
        if o is None or len(o.rows) != len(t.rows):
            bad.append(('table_shape', f'table {t.title} changes shape'))
            continue
        for (l1, r1), (l2, r2) in zip(o.rows, t.rows):
            if r1 != r2:
                changed.append(((t.title, 'table'), None))
                break
    return bad, changed, (b, v)


def reldev(a, b):
    """largest relative deviation between two snapshot values (numbers or equally long lists); inf when not comparable"""
    if isinstance(a, list) or isinstance(b, list):
        if not (isinstance(a, list) and isinstance(b, list)) or len(a) != len(b):
            return math.inf
        return max((reldev(x, y) for x, y in zip(a, b)), default=0.0)
    try:
        if math.isnan(a) and math.isnan(b):
            return 0.0
        if a == b:
            return 0.0
        return abs(a - b) / max(abs(a), abs(b), 1e-300)
    except TypeError:
        return 0.0 if a == b else math.inf


def input_task(payload):
    res = check.new_result()
    rn = rel.Runner(res)
    lines = payload['lines']
    b = rn.run(lines, tagname='unit base')
    if b is None:
        res['infra'].append(f'base of unit family not accepted: {payload["fam_id"]}')
        return res
    for name, rec, v, variants in payload['probes']:
        base_lines = [l for l in lines if l.split(',')[0].strip() != name] + [f'{name}, {v!r}']
        bb = rn.run(base_lines, tagname=f'{name} = {v} (declared unit {rec["decl"]})')
        if bb is None:
            continue
        for U, vprime in variants:
            vl = [l for l in lines if l.split(',')[0].strip() != name] + [f'{name}, {vprime!r} {U}']
            st, o = rel.observe(vl)
            res['execs'] += 1
            res['steps'] += 1
            d = check.digest([payload['fam_id'], name, U])
            res['states'].append(d)
            ut = rec['utype']
            if st == 'infra':
                res['infra'].append(str(o))
                continue
            if st == 'rejected':
                res['not_accepted'] += 1
                msg = str(o.get('exc'))
                check.fail(res, f'input/rejected/{ut}/{U}', f'[{payload["fam_id"]}] "{name}, {vprime} {U}" (= {v} {rec["decl"]}) is rejected: {msg[:200]}')
                continue
            res['accepted'] += 1
            res['nontrivial'].append(d)
            bad = snap.diff(bb['hook']['out'], o['hook']['out'], 1e-7, 1e-12)
            if bad:
                # the variant value is the conversion rounded to 12 significant digits, i.e. the same quantity up to 5e-13; a model that amplifies
                # such a perturbation beyond 1e-7 (the closed-loop AGS solver does) is judged against its own sensitivity: the declared-unit
                # value nudged by 1e-12 is run as a control, and a result is excused when it moves no more than 100 x what the control moves
                ctl_lines = [l for l in lines if l.split(',')[0].strip() != name] + [f'{name}, {v * (1 + 1e-12)!r}']
                stc, oc = rel.observe(ctl_lines)
                res['execs'] += 1
                if stc == 'ok':
                    ctl = oc['hook']['out']
                    still = [k for k in bad if k not in ctl or k not in o['hook']['out'] or k not in bb['hook']['out']
                             or reldev(bb['hook']['out'][k], o['hook']['out'][k]) > 100 * reldev(bb['hook']['out'][k], ctl[k]) + 1e-7]
                    if not still:
                        check.bump(res, 'results_differ_within_rounding_sensitivity')
                        bad = []
                    else:
                        bad = still
            if bad:
                k0 = bad[0]
                check.fail(res, f'input/results_differ/{ut}/{U}/{name}', f'[{payload["fam_id"]}] "{name}, {vprime} {U}" instead of "{name}, {v}" ({rec["decl"]}) changes {len(bad)} results, '
                           f'e.g. {k0}: {str(bb["hook"]["out"].get(k0))[:60]} -> {str(o["hook"]["out"].get(k0))[:60]}')
                continue
            badl, changed, _ = compare_reports(bb['report'], o['report'])
            for kind, detail in badl[:2]:
                check.fail(res, f'input/echo/{ut}/{U}/{name}', f'[{payload["fam_id"]}] "{name}, {vprime} {U}": {detail}')
    res['sample'] = {'input_units': {'family': payload['fam_id'], 'parameter': payload['probes'][0][0], 'variants': payload['probes'][0][3][:3]}}
    return res


def inpair_task(payload):
    res = check.new_result()
    rn = rel.Runner(res)
    lines = payload['lines']
    for n1, r1, v1, (U1, w1), n2, r2, v2, (U2, w2) in payload['pairs']:
        rest = [l for l in lines if l.split(',')[0].strip() not in (n1, n2)]
        bb = rn.run(rest + [f'{n1}, {v1!r}', f'{n2}, {v2!r}'], tagname=f'{n1} & {n2} in declared units')
        if bb is None:
            continue
        st, o = rel.observe(rest + [f'{n1}, {w1!r} {U1}', f'{n2}, {w2!r} {U2}'])
        res['execs'] += 1
        res['steps'] += 1
        d = check.digest([payload['fam_id'], n1, U1, n2, U2])
        res['states'].append(d)
        if st == 'infra':
            res['infra'].append(str(o))
            continue
        ctx = f'[{payload["fam_id"]}] "{n1}, {w1} {U1}" together with "{n2}, {w2} {U2}" (= {v1} {r1["decl"]} and {v2} {r2["decl"]})'
        if st == 'rejected':
            res['not_accepted'] += 1
            check.fail(res, f'inputs_together/rejected/{r1["utype"]}/{n1}/{n2}', f'{ctx} is rejected: {str(o.get("exc"))[:200]}')
            continue
        res['accepted'] += 1
        res['nontrivial'].append(d)
        bad = snap.diff(bb['hook']['out'], o['hook']['out'], 1e-7, 1e-12)
        if bad:
            stc, oc = rel.observe(rest + [f'{n1}, {v1 * (1 + 1e-12)!r}', f'{n2}, {v2 * (1 + 1e-12)!r}'])
            res['execs'] += 1
            if stc == 'ok':
                ctl = oc['hook']['out']
                bad = [k for k in bad if k not in ctl or k not in o['hook']['out'] or k not in bb['hook']['out']
                       or reldev(bb['hook']['out'][k], o['hook']['out'][k]) > 100 * reldev(bb['hook']['out'][k], ctl[k]) + 1e-7]
        if bad:
            k0 = bad[0]
            check.fail(res, f'inputs_together/results_differ/{r1["utype"]}/{n1}/{n2}', f'{ctx} changes {len(bad)} results, e.g. {k0}: '
                       f'{str(bb["hook"]["out"].get(k0))[:60]} -> {str(o["hook"]["out"].get(k0))[:60]}')
    if payload['pairs']:
        res['sample'] = {'inputs_together': {'family': payload['fam_id'], 'first': payload['pairs'][0][0], 'second': payload['pairs'][0][4]}}
    return res


def output_task(payload):
    res = check.new_result()
    rn = rel.Runner(res)
    lines = payload['lines']
    b = rn.run(lines, tagname='directive base')
    if b is None:
        res['infra'].append(f'base of directive family not accepted: {payload["fam_id"]}')
        return res
    for oname, ocur, U in payload['directives']:
        st, o = rel.observe(lines + [f'Units:{oname}, {U}'])
        res['execs'] += 1
        res['steps'] += 1
        d = check.digest([payload['fam_id'], 'out', oname, U])
        res['states'].append(d)
        if st == 'infra':
            res['infra'].append(str(o))
            continue
        if st == 'rejected':
            res['not_accepted'] += 1
            check.fail(res, f'output/rejected/{U}', f'[{payload["fam_id"]}] "Units:{oname}, {U}" is rejected: {str(o.get("exc"))[:200]}')
            continue
        res['accepted'] += 1
        res['nontrivial'].append(d)
        bad = snap.diff(b['hook']['out'], o['hook']['out'], 0.0, 0.0)
        if bad:
            check.fail(res, f'output/results_change/{oname}', f'[{payload["fam_id"]}] requesting {oname} in {U} changes computed results {bad[:4]}')
        badl, changed, (bp, vp) = compare_reports(b['report'], o['report'])
        for kind, detail in badl[:2]:
            check.fail(res, f'output/{kind}/{oname}/{U}', f'[{payload["fam_id"]}] "Units:{oname}, {U}": {detail}')
        for key, unit in changed:
            if unit is not None and UR.norm(unit) != UR.norm(U) and not badl and key[1] != 'table':
                check.fail(res, f'output/changed_line_not_in_requested_unit/{oname}', f'[{payload["fam_id"]}] "Units:{oname}, {U}" changes line {key} but labels it {unit!r}')
        # table cells of the requested output must change by the exact factor (others stay)
        bt = {t.title: t for t in bp.tables}
        factors = []
        for u0 in ocur:      # the table may print the output in its current or in its preferred unit
            try:
                factors.append(UR.convert(1.0, u0, U) - UR.convert(0.0, u0, U))
            except UR.Unconvertible:
                pass
        for t in vp.tables:
            o_ = bt.get(t.title)
            if o_ is None or len(o_.rows) != len(t.rows):
                continue
            ncol = min(len(r) for _, r in t.rows) if t.rows else 0
            for ci in range(1, ncol):
                colb = [T.to_number(r[ci]) for _, r in o_.rows]
                colv = [T.to_number(r[ci]) for _, r in t.rows]
                if colb == colv:
                    continue
                ok = any(all(abs(vv - bb_ * factor) <= max(abs(factor), 1.0) * 0.51 * 10 ** (-(rpt.decimals_of(r[ci]) or 0)) + 0.51 * 10 ** (-(rpt.decimals_of(r2[ci]) or 0))
                             for bb_, vv, (_, r), (_, r2) in zip(colb, colv, o_.rows, t.rows)) for factor in factors)
                if not ok:
                    check.fail(res, f'output/table_column/{oname}/{U}', f'[{payload["fam_id"]}] "Units:{oname}, {U}": table {t.title} column {ci} changes '
                               f'{colb[:3]} -> {colv[:3]} which is not the conversion factor {factors}')
                    break
    res['sample'] = {'output_directive': {'family': payload['fam_id'], 'directives': payload['directives'][:3]}}
    return res


def basefail_task(payload):
    res = check.new_result()
    res['execs'] += 1
    st, o = rel.observe(payload['lines'])
    if st == 'ok':
        res['infra'].append(f'parameter discovery failed for family {payload["fam_id"]} although its base runs: {payload["error"]}')
    else:
        check.fail(res, f'family/base_not_accepted/{payload["fam_id"]}', f'the base input of family {payload["fam_id"]} (accepted on the pinned tree; its lines carry units such as '
                   f'"2.4 kilometer") is not accepted: {payload["error"]}')
    return res


def task(payload):
    if payload['kind'] == 'basefail':
        return basefail_task(payload)
    if payload['kind'] == 'inpair':
        return inpair_task(payload)
    return input_task(payload) if payload['kind'] == 'in' else output_task(payload)


def pick_value(rec):
    """a non-default in-range value expressed in the declared unit"""
    lo, hi, d = rec['min'], rec['max'], rec['default']
    if rec['t'] == 'int':
        return None
    cands = []
    if d is not None and lo is not None and lo <= d <= hi and d != 0:
        cands += [d * 0.75, d * 1.25]
    if lo is not None:
        cands += [lo + (hi - lo) * 0.3]
    for c in cands:
        if lo <= c <= hi and c != d:
            return float(f'{c:.6g}')
    return None


def family_list(tier):
    fams = [('std-elec-mpf', F.lines(F.base(1, 1, 1, 1, (3, 2, 1)))), ('std-dh-tdp', F.lines(F.base(2, 2, 7, 4, (3, 2, 1))))]
    if tier == 'thorough':
        fams += [('std-cogen-sf', F.lines(F.base(3, 51, 3, 3, (3, 2, 2)))), ('std-chiller-lhs', F.lines(F.base(1, 2, 5, 2, (3, 2, 1)))),
                 ('std-heatpump', F.lines(F.base(2, 2, 6, 4, (3, 2, 1))))]
    # over-pressured production reservoir with a separate injection reservoir (its own depth / temperature / pressure inputs and code path)
    fams.append(('std-overpressure', F.lines(F.override(F.base(1, 1, 2, 4, (3, 2, 1)), {
        'Overpressure Percentage': '150', 'Overpressure Depletion Rate': '5', 'Injection Reservoir Depth': '1000', 'Injection Reservoir Inflation Rate': '10',
        'Injection Reservoir Temperature': '90', 'Injection Reservoir Initial Pressure': '9000',
        # ... with the carbon-price block switched on: the only printed quantities of the MASS unit type (saved carbon production)
        'Do Carbon Price Calculations': 'True', 'Starting Carbon Credit Value': '0.01', 'Ending Carbon Credit Value': '0.05', 'Carbon Escalation Rate Per Year': '0.01'}))))
    fams.append(('sbt-eavorloop', F.lines(F.sbt_base(3, 31, 1, (3, 2, 1), 5))))     # closed loop: its own length / time / diameter inputs
    from vf.checks import c07
    fams.append(('sutra', c07.file_lines(c07.ex('SUTRAExample1.txt'))))             # the SUTRA writer prints its own cost and energy tables
    # writers that call the unit conversion more than once before printing: add-on / S-DAC-GT blocks, the closed-loop (AGS) writer on top of the standard one
    fams.append(('addons-sdacgt', c07.file_lines(c07.ex('example1_addons.txt')) + ['Do S-DAC-GT Calculations, True', 'Plant Lifetime, 6', 'Time steps per year, 2']))
    if tier == 'thorough':
        fams.append(('ags-wangju', c07.file_lines(c07.ex('Wanju_Yuan_Closed-Loop_Geothermal_Energy_Recovery.txt'))))
    return fams


def plan(tier, seed):
    runner.preload()
    P = []
    summary = {}
    for fam_id, lines in family_list(tier):
        tag = runner.fork_exec(discover, (fam_id, lines), timeout=300)
        if tag[0] != 'ok':
            # the family bases are accepted inputs (several carry units themselves, e.g. '2.4 kilometer'): a base that can no longer be read
            # is reported as a violation by the task below, not as a harness failure
            P.append({'kind': 'basefail', 'fam_id': fam_id, 'lines': lines, 'error': f'{tag[1]}'[:300]})
            continue
        params, outs = tag[1]['params'], tag[1]['outputs']
        base_vals = {l.split(',', 1)[0].strip(): l.split(',', 1)[1].strip() for l in lines if ',' in l}
        probes = []
        npairs = 0
        for name in sorted(params):
            rec = params[name]
            v = pick_value(rec)
            if fam_id.startswith('sbt') and name in base_vals:
                # closed-loop geometry: stay next to the base (a default-derived lateral depth of 5 km makes one run take minutes)
                try:
                    txt = base_vals[name].split()
                    bv = float(txt[0]) if len(txt) == 1 else UR.convert(float(txt[0]), txt[1], rec['decl'])
                    cand = float(f'{bv * 1.04:.6g}')
                    if rec['min'] <= cand <= rec['max']:
                        v = cand
                except (ValueError, KeyError, TypeError):
                    pass
            if v is None:
                continue
            dims = UR.dims(rec['decl'])
            if not dims:
                continue
            table = UR.LIN.get(dims[0]) if dims[0] != 'temperature' else UR.TEMP
            variants = []
            for U in table:
                if U == UR.norm(rec['decl']) or U in ('m', 'km', 'mi', 'year', 'K', 'GWh') or (dims[0] == 'fraction'):
                    continue
                try:
                    variants.append((U, float(f'{UR.convert(v, rec["decl"], U):.12g}')))
                except UR.Unconvertible:
                    continue
            if variants:
                probes.append([name, rec, v, variants])
                npairs += len(variants)
        for i in range(0, len(probes), 3):
            P.append({'kind': 'in', 'fam_id': fam_id, 'lines': lines, 'probes': probes[i:i + 3]})
        # two unit-carrying inputs of one unit type whose declared units differ (depth in km, fracture height in m, diameters in inch ...), written
        # together: one conversion must not influence the other. Unit types whose single-input variants work on the pinned tree only.
        if fam_id.startswith('std'):
            by_type = {}
            for name, rec, v, variants in probes:
                if rec['utype'] in ('LENGTH', 'PRESSURE', 'TEMPERATURE', 'TIME') and name in base_vals:
                    by_type.setdefault(rec['utype'], {}).setdefault(UR.norm(rec['decl']), []).append((name, rec, v, variants))
            pairs = []
            for ut, clusters in sorted(by_type.items()):
                reps = [sorted(c, key=lambda x: x[0])[0] for _, c in sorted(clusters.items())]
                if ut == 'LENGTH':      # several representatives per declared unit: lengths are the type with the most different internal units
                    reps = [x for _, c in sorted(clusters.items()) for x in sorted(c, key=lambda y: y[0])[:2]]
                for a, b in itertools.permutations(reps, 2):
                    if UR.norm(a[1]['decl']) == UR.norm(b[1]['decl']) and ut != 'TEMPERATURE':
                        continue
                    pairs.append([a[0], a[1], a[2], a[3][0], b[0], b[1], b[2], b[3][0]])
            for i in range(0, len(pairs), 4):
                P.append({'kind': 'inpair', 'fam_id': fam_id, 'lines': lines, 'pairs': pairs[i:i + 4]})
        directives = []
        for oname, ocur2 in sorted(outs.items()):
            ocur = ocur2[0]
            dims = UR.dims(ocur)
            if not dims or dims[0] == 'fraction':
                continue
            table = UR.LIN.get(dims[0]) if dims[0] != 'temperature' else UR.TEMP
            for U in table:
                if U == UR.norm(ocur) or U in ('m', 'km', 'mi', 'year', 'K', 'GWh'):
                    continue
                directives.append([oname, ocur2, U])
        for i in range(0, len(directives), 8):
            P.append({'kind': 'out', 'fam_id': fam_id, 'lines': lines, 'directives': directives[i:i + 8]})
        summary[fam_id] = {'parameters_with_convertible_units': len(probes), 'parameter_unit_pairs': npairs, 'output_directives': len(directives)}
    plan.summary = summary
    return P


def run(tier, seed, budget=None):
    mod = sys.modules[__name__]
    return e1.run_generic(
        mod, PID, tier, seed, budget,
        rule=('finite and complete per configuration family (quick 2, thorough 5): every float input parameter of every instantiated module x every unit of '
              'the program\'s catalogue in the same dimension that the own conversion table (vf/oracles/units_ref.py) covers, value re-expressed exactly; '
              'every output parameter x every convertible catalogue unit through the Units: directive. Oracles: all pre-print results equal (1e-7), every '
              'report line denotes the same quantity as in the run with the declared unit, changed lines carry the requested unit, table columns change '
              'by the exact factor. Distinct = (family, parameter|output, unit)'),
        assumptions=['exchange-rate currencies (EUR, MXN) and ambiguous spellings (gr/cm**3) are outside the own conversion table and not exercised',
                     'a value typed without a unit is in the unit the parameter is declared in (the unit its bounds are stated in)'])
