"""
C05 — resource temperature and thermal drawdown obey the model definition.
Part R (reservoir level): read_parameters + reserv.Calculate on the real classes for the complete product of layer
        layouts x depth x Tmax x Tsurf; Trock and the capped depth against reservoir_ref.bottom_hole.
Part E (end to end): reservoir models 1-4 x drawdown / maximum-drawdown alphabets x shapes; series clauses at the hook.
"""
import itertools
import sys

import numpy as np

from vf.core import e1, mv, runner, check
from vf.core.mv import V, A
from vf import families as F
from vf.oracles import reservoir_ref as RR
from vf.checks import econ_common as EC

PID = 'C05'

GRADS = ['1.01', '30', '50', '120', '500']
THICK = ['0.01', '0.5', '2', '99']
DEPTHS = ['0.1', '1', '3', '7', '15']
TMAX = ['50', '150', '400', '600']
TSURF = ['-50', '15', '50']


def res_lines(nseg, grads, thicks, depth, tmax, tsurf):
    l = ['Reservoir Model, 4', f'Number of Segments, {nseg}', f'Reservoir Depth, {depth}', f'Maximum Temperature, {tmax}',
         f'Surface Temperature, {tsurf}', 'Injection Temperature, 1', 'Print Output to Console, 0']
    for i, g in enumerate(grads):
        l.append(f'Gradient {i + 1}, {g}')
    for i, t in enumerate(thicks):
        l.append(f'Thickness {i + 1}, {t}')
    return l


def reservoir_level(case):
    """child: real Model construction, parameter reading and reservoir calculation only."""
    import sys as _s
    import os
    import tempfile
    from vf.core import sim
    p = sim.write_input(res_lines(*case))
    _s.argv = ['', str(p), os.path.join(tempfile.gettempdir(), 'o.out')]
    from geophires_x.Model import Model
    try:
        m = Model(enable_geophires_logging_config=False)
        m.read_parameters()
        m.reserv.Calculate(m)
    except BaseException as e:  # noqa
        return {'status': 'not_accepted', 'exc': f'{type(e).__name__}: {e}'}
    return {'status': 'accepted', 'Trock': float(m.reserv.Trock.value),
            'depth_m': float(m.reserv.depth.quantity().to('m').magnitude)}


def res_task(payload):
    res = check.new_result()
    for case in payload['cases']:
        nseg, grads, thicks, depth, tmax, tsurf = case
        tag = runner.fork_exec(reservoir_level, case, timeout=120)
        res['execs'] += 1
        res['steps'] += 1
        if tag[0] != 'ok':
            res['infra'].append(f'reservoir-level execution failed: {tag[1]} {case}')
            continue
        o = tag[1]
        if o['status'] != 'accepted':
            res['not_accepted'] += 1
            check.note(res, 'rejected_inputs', f"{o['exc'][:100]} :: {case}")
            continue
        res['accepted'] += 1
        eT, ez = RR.bottom_hole(float(tsurf), [float(x) for x in grads], [float(x) for x in thicks], float(depth), float(tmax))
        capped = ez < float(depth) - 1e-12
        if not mv.close(o['Trock'], eT, 1e-9, 1e-9):
            check.fail(res, f'trock/seg{nseg}/' + ('capped' if capped else 'uncapped'),
                       f'bottom-hole temperature {o["Trock"]!r}, layer walk gives {eT!r} at {ez} km for segments={nseg} gradients={grads} '
                       f'thicknesses={thicks} depth={depth} Tmax={tmax} Tsurf={tsurf}')
        if not mv.close(o['depth_m'] / 1000.0, ez, 1e-9, 1e-9):
            check.fail(res, f'depth_cap/seg{nseg}', f'depth after cap {o["depth_m"] / 1000.0!r} km, expected {ez!r} km for {case}')
        d = check.digest([round(o['Trock'], 9), round(o['depth_m'], 6)])
        res['states'].append(d)
        if nseg > 1 or capped:
            res['nontrivial'].append(d)
    res['sample'] = {'reservoir_level': {'segments': nseg, 'gradients': grads, 'thicknesses': thicks, 'depth': depth, 'Tmax': tmax,
                                         'Tsurf': tsurf, 'Trock': o.get('Trock') if tag[0] == 'ok' else None}}
    return res


def series_monitor(m, payload):
    fails = []
    rs, wb, sp, ec = m.reserv, m.wellbores, m.surfaceplant, m.economics
    rm = mv.enum_int(V(rs, 'resoption'))
    Trock = float(V(rs, 'Trock'))
    Tres = A(rs, 'Tresoutput')
    Tprod = A(wb, 'ProducedTemperature')
    redrill = int(V(wb, 'redrill'))
    maxdd = float(V(wb, 'maxdrawdown'))
    N = Tprod.size
    inp = EC.input_dict(payload)
    # layer walk end to end as well
    nseg = int(float(inp.get('Number of Segments', 1)))
    grads = [float(inp.get(f'Gradient {i + 1}', 0)) for i in range(nseg)]
    thicks = [float(inp.get(f'Thickness {i + 1}', 0.01)) for i in range(nseg - 1)]
    eT, ez = RR.bottom_hole(float(inp.get('Surface Temperature', 15)), grads, thicks, float(inp.get('Reservoir Depth', 3)),
                            float(inp.get('Maximum Temperature', 400)))
    if not mv.close(Trock, eT, 1e-9, 1e-9):
        fails.append(('e2e/trock', f'bottom-hole temperature {Trock!r}, layer walk gives {eT!r}'))
    if rm in (1, 2, 3, 4):
        if not mv.close(Tres[0], Trock, 1e-9, 1e-9):
            fails.append((f'tres0/model{rm}', f'reservoir temperature history starts at {Tres[0]!r}, bottom-hole temperature is {Trock!r}'))
        limit = (1 - maxdd) * Tprod[0]
        below = np.where(Tprod < limit - 1e-9 * abs(limit))[0]
        if below.size:
            fails.append((f'drawdown_limit/model{rm}', f'production temperature {Tprod[below[0]]!r} at step {int(below[0])} is below the limit {limit!r} (max drawdown {maxdd})'))
        if redrill > 0:
            ps = [p for p in range(1, N + 1) if N // p == redrill]
            ok = [p for p in ps if RR.is_periodic(list(Tprod), p) and RR.is_periodic(list(Tres), p)]
            if not ok:
                fails.append((f'redrill/periodicity/model{rm}', f'{redrill} redrillings reported over {N} steps but the produced/reservoir series do not restart with a period p with floor(N/p)={redrill} (candidates {ps})'))
        period = N
        if redrill > 0:
            cands = [p for p in range(1, N + 1) if N // p == redrill and RR.is_periodic(list(Tprod), p)]
            period = min(cands) if cands else N
        if rm in (3, 4):
            # the injection temperature the reservoir model was run with is the input's: flash and ORC plants may lower wellbores.Tinj afterwards
            # (their own reinjection temperature), which must not enter the closed-form reservoir profile
            Tinj = float(inp['Injection Temperature']) if 'Injection Temperature' in inp else float(V(wb, 'Tinj'))
            if 'Injection Temperature' in inp:
                Tinj += float(inp.get('Injection Wellbore Temperature Gain') or 0)      # what reaches the reservoir: injection temperature + gain on the way down
            if Trock >= Tinj:
                over = np.where(Tres > Trock * (1 + 1e-12) + 1e-9)[0]
                if over.size:
                    fails.append((f'tres_exceeds_trock/model{rm}', f'reservoir temperature {Tres[over[0]]!r} at step {int(over[0])} exceeds bottom-hole temperature {Trock!r}'))
                for k in range(1, N):
                    if k % period == 0:
                        continue
                    if Tres[k] > Tres[k - 1] + 1e-9:
                        fails.append((f'tres_rises/model{rm}', f'reservoir temperature rises from {Tres[k - 1]!r} to {Tres[k]!r} at step {k} (period {period}, redrill {redrill})'))
                        break
            # closed-form restart index (Ramey off only: constant wellbore drop)
            if rm == 4 and not bool(V(wb, 'rameyoptionprod')):
                drop = float(V(wb, 'tempdropprod'))
                L = int(V(sp, 'plant_lifetime'))
                times = list(np.linspace(0, L, N))
                prof = [t - drop for t in RR.tdp_profile(Trock, Tinj, float(V(rs, 'drawdp')), times)]
                kb = RR.first_below(prof, (1 - maxdd) * prof[0])
                exp_redrill = 0 if (kb is None or kb == 0) else N // kb
                if exp_redrill != redrill:
                    fails.append(('redrill/count/model4', f'{redrill} redrillings reported, closed-form profile first falls below the limit at step {kb} -> expected {exp_redrill}'))
    state = [rm, nseg, round(Trock, 9), redrill, N, [round(float(x), 9) for x in Tprod[:4]]]
    return {'fails': fails, 'state': state, 'nontrivial': bool(np.ptp(Tprod) > 1e-9),
            'counters': {'redrill_positive': int(redrill > 0)},
            'sample': {'family': payload.get('fam'), 'changes': payload.get('changes'), 'Trock': Trock, 'redrill': redrill,
                       'Tprod_head': [float(x) for x in Tprod[:4]]}}


def task(payload):
    if payload.get('kind') == 'res':
        return res_task(payload)
    return e1.unary_task(payload, series_monitor, want=())


DRAW = {1: {'Fracture Separation': ['10', '100'], 'Number of Fractures': ['4', '60']},
        2: {'Reservoir Volume': ['5e7', '1e9'], 'Reservoir Porosity': ['0.001', '0.3']},
        3: {'Drawdown Parameter': ['0.00002', '0.0002', '0.0006', '0.002', '0.2']},     # 0.0006, 0.002: the curve comes within a few degrees of its asymptote midway through the lifetime
        4: {'Drawdown Parameter': ['0', '0.005', '0.04', '0.1', '0.2']}}


def plan(tier, seed):
    P = []
    cases = []
    for nseg in (1, 2, 3):
        for grads in itertools.product(GRADS, repeat=nseg):
            if tier == 'quick' and nseg == 3 and len(set(grads)) == 1:
                continue
            for thicks in itertools.product(THICK, repeat=nseg - 1):
                for depth, tmax, tsurf in itertools.product(DEPTHS, TMAX, TSURF):
                    if tier == 'quick' and nseg == 3 and (tsurf != '15' or tmax == '50'):
                        continue
                    cases.append([nseg, list(grads), list(thicks), depth, tmax, tsurf])
    # four segments: all layouts within two deviations of a base
    base_g, base_t = ['30', '50', '30', '50'], ['0.5', '0.5', '0.5']
    seen = set()
    for dg in range(0, 3):
        for idxs in itertools.combinations(range(7), dg):
            for vals in itertools.product(*[(GRADS if i < 4 else THICK) for i in idxs]):
                g, t = list(base_g), list(base_t)
                for i, v in zip(idxs, vals):
                    if i < 4:
                        g[i] = v
                    else:
                        t[i - 4] = v
                for depth, tmax in (('3', '400'), ('7', '150'), ('15', '600'), ('1', '50')):
                    key = (tuple(g), tuple(t), depth, tmax)
                    if key in seen:
                        continue
                    seen.add(key)
                    cases.append([4, g, t, depth, tmax, '15'])
    B = 60
    for i in range(0, len(cases), B):
        P.append({'kind': 'res', 'cases': cases[i:i + B]})
    # end to end
    # (12, 2, 1): long enough for drawdown parameter x lifetime > 1 (model 4 then cools below the injection temperature)
    shapes = [(5, 3, 2), (3, 1, 1), (2, 4, 3), (12, 2, 1)] if tier == 'quick' else [(5, 3, 2), (3, 1, 1), (2, 4, 3), (12, 2, 1), (30, 1, 1), (10, 4, 1), (1, 2, 1)]
    for r in F.RES_MODELS:
        for pair in ((1, 1), (2, 9)) if tier == 'quick' else ((1, 1), (2, 9), (1, 3), (2, 6), (41, 2)):
            for s in shapes:
                fam = {'econ': 1, 'enduse': pair[0], 'plant': pair[1], 'res': r, 'shape': list(s)}
                P.append({'fam': fam, 'changes': {}, 'base': True})
                for md in ('1', '0.5', '0.1', '0.02', '0.005'):
                    for ramey in ({}, {'Ramey Production Wellbore Model': '0', 'Production Wellbore Temperature Drop': '5'}):
                        ch = {'Maximum Drawdown': md}
                        ch.update(ramey)
                        P.append({'fam': fam, 'changes': ch})
                        for name, vals in DRAW[r].items():
                            for v in vals:
                                c2 = dict(ch)
                                c2[name] = v
                                P.append({'fam': fam, 'changes': c2})
                                # ... and with the injected water warming up on its way down (the reservoir then sees injection temperature + gain:
                                # the asymptote of the cooling curve moves, and with it every threshold expressed relative to it)
                                c3 = dict(c2)
                                c3['Injection Wellbore Temperature Gain'] = '6'
                                P.append({'fam': fam, 'changes': c3})
                # a reservoir colder than the water that reaches it (injection temperature + gain above bottom-hole temperature): legal; the history
                # still starts at bottom-hole temperature
                for md in ('1', '0.05'):
                    P.append({'fam': fam, 'changes': {'Gradient 1': '12', 'Injection Temperature': '50', 'Injection Wellbore Temperature Gain': '10', 'Maximum Drawdown': md}})
                # multi-segment end to end
                P.append({'fam': fam, 'changes': {'Number of Segments': '3', 'Gradient 1': '60', 'Gradient 2': '30', 'Gradient 3': '80',
                                                  'Thickness 1': '1', 'Thickness 2': '1.5'}})
                P.append({'fam': fam, 'changes': {'Number of Segments': '2', 'Gradient 1': '60', 'Gradient 2': '90', 'Thickness 1': '2',
                                                  'Maximum Temperature': '200'}})
    return P


def run(tier, seed, budget=None):
    return e1.run_generic(
        sys.modules[__name__], PID, tier, seed, budget,
        rule=('reservoir level: complete product of 1..3-segment layouts (gradients {1.01,30,50,120,500} C/km, thicknesses '
              '{0.01,0.5,2,99} km) x depth {0.1,1,3,7,15} km x Tmax {50,150,400,600} x Tsurf {-50,15,50} (quick trims the 3-segment '
              'Tsurf/Tmax axes), 4-segment layouts within 2 deviations of a base; end to end: reservoir models 1-4 x plant x shapes x '
              'maximum drawdown {1 (given),0.5,0.1,0.02,0.005} x Ramey on/off x drawdown-parameter alphabets x injection wellbore temperature gain {0, 6}. Non-trivial = multi-segment or '
              'capped (reservoir level) / produced temperature varies (end to end); redrill_positive counter reports how many runs redrilled'),
        assumptions=['magnitudes that trigger the unit heuristics (gradient <= 1, thickness >= 100) are outside the alphabet',
                     'monotonicity/upper-bound clauses are evaluated only where bottom-hole temperature >= injection temperature',
                     'models 1 and 2 are checked for start value, drawdown limit and restart periodicity only (as the property states)'])
