"""Reference computation for C08: run as a fresh interpreter (its own PYTHONHASHSEED); every request alone in a forked child."""
import json
import os
import sys

from vf.core import runner


def one(arg):
    kind, start = arg
    import tempfile
    from vf.checks import c08
    out = c08.replay_history({'history': [kind + '/n' if kind != 'hip' else 'hip'], 'start': start})
    rec = out['records'][0]
    return {'outcome': rec['outcome'], 'text': rec.get('text'), 'json': rec.get('json_file'), 'exc': rec.get('exc')}


if __name__ == '__main__':
    runner.preload()
    kinds = json.loads(os.environ['VF_REF_KINDS'])
    start = os.environ.get('VF_REF_START', 'A')
    res = {}
    for k in kinds:
        tag = runner.fork_exec(one, (k, start), timeout=600)
        if tag[0] != 'ok':
            print(tag, file=sys.stderr)
            sys.exit(3)
        res[k] = {'outcome': tag[1]['outcome'], 'text': tag[1]['text'], 'json': tag[1].get('json')}
    runner.cleanup_scratch()
    print(json.dumps(res))
