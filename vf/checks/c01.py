"""C01 — levelized cost equals its documented definition (E1, unary)."""
import random

from vf.core import e1
from vf import families as F
from vf.checks import econ_common as EC

PID = 'C01'

ADDON_ZERO = {'Construction Years': '1', 'Do AddOn Calculations': 'True', 'AddOn Nickname 1': 'nil', 'AddOn CAPEX 1': '0', 'AddOn OPEX 1': '0',
              'AddOn Electricity Gained 1': '0', 'AddOn Heat Gained 1': '0', 'AddOn Profit Gained 1': '0'}
ADDON_GAIN = {'Construction Years': '1', 'Do AddOn Calculations': 'True', 'AddOn Nickname 1': 'a', 'AddOn CAPEX 1': '10', 'AddOn OPEX 1': '0.1',
              'AddOn Electricity Gained 1': '26000000', 'AddOn Heat Gained 1': '5000000', 'AddOn Profit Gained 1': '0.05',
              'AddOn Nickname 2': 'b', 'AddOn CAPEX 2': '4', 'AddOn OPEX 2': '0.3', 'AddOn Electricity Gained 2': '-100000',
              'AddOn Heat Gained 2': '0', 'AddOn Profit Gained 2': '1.5'}
STRUCT = [ADDON_ZERO, ADDON_GAIN, {'Maximum Drawdown': '0.05'},
          {**ADDON_GAIN, 'Do S-DAC-GT Calculations': 'True', 'S-DAC-GT CAPEX': '1400', 'S-DAC-GT OPEX': '130'},     # both extensions in one run
          {'Power Plant Type': None},      # left to its default: the end-use option then decides the plant (industrial heat for direct use)
          {'Total Capital Cost': '50', 'Total O&M Cost': '3'},
          {'Do Carbon Price Calculations': 'True', 'Starting Carbon Credit Value': '0.01', 'Ending Carbon Credit Value': '0.05',
           'Carbon Escalation Rate Per Year': '0.01'}]


def monitor(m, payload):
    return EC.mon_c01(m, payload)


def task(payload):
    return e1.unary_task(payload, monitor, post=EC.post_c01, want=('report',))


def alphabets(fam, seed):
    eu, pt, em = fam.get('enduse', 1), fam.get('plant', 2), fam.get('econ', 3)
    rnd = random.Random(f'{seed}/{F.fam_id(fam)}')

    def interior(lo, hi):
        return [f'{rnd.uniform(lo, hi):.6g}' for _ in range(2)]

    a = {'Inflation Rate During Construction': ['0', '1', '0.15'] + interior(0, 1),
         'Utilization Factor': ['0.5'], 'End-Use Efficiency Factor': ['0.5'],
         'Total Capital Cost': ['50', '1000'], 'Total O&M Cost': ['3', '0'],
         'Investment Tax Credit Rate': ['0.3', '1'],
         'Electricity Rate': ['0', '0.3'] + interior(0, 1)}
    if em == 1:
        a['Fixed Charge Rate'] = ['0', '1', '0.035'] + interior(0, 1)
    if em == 2:
        a['Discount Rate'] = ['0', '1', '0.12'] + interior(0, 1)
    if em == 3:
        a.update({'Fraction of Investment in Bonds': ['0', '1'] + interior(0, 1),
                  'Inflated Bond Interest Rate': ['0', '1'] + interior(0, 1),
                  'Inflated Equity Interest Rate': ['0', '1'] + interior(0, 1),
                  'Inflation Rate': ['0', '1'] + interior(0, 1),
                  'Combined Income Tax Rate': ['0', '1', '0.9'] + interior(0, 1),
                  'Gross Revenue Tax Rate': ['0', '1', '0.5'] + interior(0, 1),
                  'Property Tax Rate': ['0.02', '1'] + interior(0, 1)})
    if eu > 2:
        a['CHP Electrical Plant Cost Allocation Ratio'] = ['0', '1', '0.3'] + interior(0, 1)
    if pt == 6:
        a['Heat Pump COP'] = ['1.5', '5']
    if pt == 5:
        a['Absorption Chiller COP'] = ['0.1', '1.5']
    if pt == 7:
        a['Peaking Fuel Cost Rate'] = ['0', '0.2']
        a['Peaking Boiler Efficiency'] = ['0.5', '1']
    return a


INTERACTION = ('Total Capital Cost', 'Total O&M Cost', 'Investment Tax Credit Rate', 'Inflation Rate During Construction',
               'Fixed Charge Rate', 'Discount Rate', 'Combined Income Tax Rate', 'CHP Electrical Plant Cost Allocation Ratio',
               'Electricity Rate')


def plan(tier, seed):
    P = []
    if tier == 'quick':
        shapes, dev_res, dev_shapes = F.SHAPES_QUICK, (3, 4), [(5, 3, 2)]
    else:
        shapes = F.SHAPES_QUICK + ((1, 2, 1), (4, 2, 1), (30, 1, 1), (12, 2, 14), (100, 1, 2))
        dev_res, dev_shapes = (1, 2, 3, 4), [(5, 3, 2), (3, 1, 1)]
    for em in F.ECON_MODELS:
        for pair in F.PAIRS:
            for r in F.RES_MODELS:
                for s in shapes:
                    if r in (1, 2) and s[0] * s[1] > 90:
                        continue
                    fam = {'econ': em, 'enduse': pair[0], 'plant': pair[1], 'res': r, 'shape': list(s)}
                    P.append({'fam': fam, 'changes': {}, 'base': True})
                    if tuple(s) in dev_shapes and r in dev_res:
                        al = alphabets(fam, seed)
                        for ch in e1.deviations(al, 1):
                            P.append({'fam': fam, 'changes': ch})
                        for ch in STRUCT:
                            P.append({'fam': fam, 'changes': dict(ch)})
                        if tier == 'thorough' and tuple(s) == (5, 3, 2) and r == 4:
                            inter = {k: al[k][:2] for k in INTERACTION if k in al}
                            for ch in e1.deviations(inter, 2):
                                P.append({'fam': fam, 'changes': ch})
                            for st in STRUCT[:5]:
                                for ch in e1.deviations(inter, 1):
                                    c = dict(st)
                                    c.update(ch)
                                    P.append({'fam': fam, 'changes': c})
    # closed-loop (SBT) economics: its own Calculate, same levelized-cost definitions
    for fam in F.sbt_grid(shapes=((6, 2, 1), (3, 1, 2)) if tier == 'quick' else ((6, 2, 1), (3, 1, 2), (30, 1, 1), (12, 4, 3))):
        P.append({'fam': fam, 'changes': {}, 'base': True})
        if fam['shape'] == [6, 2, 1]:
            al = alphabets(fam, seed)
            for ch in e1.deviations(al, 1):
                P.append({'fam': fam, 'changes': ch})
            for ch in STRUCT:
                P.append({'fam': fam, 'changes': dict(ch)})
    return P


def run(tier, seed, budget=None):
    import sys
    return e1.run_generic(
        sys.modules[__name__], PID, tier, seed, budget,
        rule=('complete product economic model (3) x end-use/plant pair (32) x reservoir model (4) x shapes; on the '
              'deviation shapes every single-parameter deviation over the rate/cost alphabets (Min, Max, a mid value and two '
              'VERIF_SEED-chosen interior points per rate) plus structural deviations (zero add-on, add-on with gains, '
              'redrilling, fixed totals, carbon pricing); thorough adds all pairs over the interaction set; the closed-loop (SBT) family: '
              '3 models x 6 pairs x 2 well geometries x shapes with the same single deviations. '
              'Non-trivial = accepted, levelized cost finite and non-zero and the energy series varies between years; '
              'distinct = digest of (model, end-use, plant class, reservoir class, lifetime, add-on, levelized costs)'),
        assumptions=['the branch table in vf/oracles/econ_ref.py (from the pinned code) is the documented definition',
                     'for cogeneration heat the per-model treatment of pumping cost follows the pinned code (asymmetry noted in DESIGN C01)',
                     'other annual costs are taken as reported by the run (average pumping / heat-pump electricity / peaking fuel)'])
