"""
C19 — the published parameter schema matches what the simulator accepts.
Reachability: the configuration-selection machine of Model.__init__/read_parameters is driven over the complete product of
selector values (construction and parameter reading only); the reachable module-class tuples are the states and the union
of their ParameterDict keys is "what the simulator accepts". Then: set equality with the generated request schema, agreement
of type/default/unit/bounds for parameters defined identically everywhere (plus enforcement probes at the schema's own
bounds through the C07 reader probes), committed files vs generated ones, and extractability of every result-schema field.
"""
import glob
import itertools
import json
import math
import os
import sys

from vf.core import e1, check, runner, mv
from vf import families as F
from vf.checks import c07

PID = 'C19'

RES = list(range(0, 9))
ECON = [1, 2, 3, 4]
PLANT = list(range(1, 10))
ENDUSE = [1, 2, 31, 32, 41, 42, 51, 52]


def flatten_param(p):
    from geophires_x.Parameter import floatParameter, intParameter, boolParameter, strParameter, listParameter
    t = getattr(p, 'json_parameter_type', None)
    d = p.DefaultValue
    d = getattr(d, 'int_value', d)
    rec = {'type': t, 'default': d if isinstance(d, (int, float, str, bool, type(None))) else (list(d) if isinstance(d, (list, tuple)) else str(d)),
           'units': getattr(p.CurrentUnits, 'value', None) if not isinstance(p.CurrentUnits, str) else p.CurrentUnits}
    if isinstance(p, intParameter):
        rng = [int(getattr(x, 'int_value', x)) for x in p.AllowableRange]
        rec['min'], rec['max'] = (min(rng), max(rng)) if rng else (None, None)
    elif isinstance(p, (floatParameter, listParameter)):
        rec['min'], rec['max'] = float(p.Min), float(p.Max)
    else:
        rec['min'] = rec['max'] = None
    return rec


def construct_batch(combos):
    """child: build the real Model for each selector combination; collect class tuples and parameter definitions."""
    import tempfile
    from vf.core import sim
    from geophires_x.Model import Model
    os.chdir(os.path.join(runner.repo_src(), 'geophires_x'))
    states = {}
    for c in combos:
        res, ags, econ, plant, eu, addon, sdac = c
        lines = [f'Reservoir Model, {res}', f'Economic Model, {econ}', f'Power Plant Type, {plant}', f'End-Use Option, {eu}', 'Print Output to Console, 0']
        if ags:
            lines.append('Is AGS, True')
        if addon:
            lines += ['Do AddOn Calculations, True', 'AddOn Nickname 1, x', 'AddOn CAPEX 1, 1', 'AddOn OPEX 1, 0.1', 'AddOn Electricity Gained 1, 0',
                      'AddOn Heat Gained 1, 0', 'AddOn Profit Gained 1, 0']
        if sdac:
            lines.append('Do S-DAC-GT Calculations, True')
        if plant == 7:
            lines += [f'District Heating Demand File Name, {F.demand_csv()}', 'District Heating Demand Option, 1', 'District Heating Demand Data Column Number, 2']
        p = sim.write_input(lines, name=f'c{abs(hash(tuple(c)))}.txt')
        sys.argv = ['', str(p), os.path.join(tempfile.gettempdir(), 'o.out')]
        try:
            m = Model(enable_geophires_logging_config=False)
        except BaseException as e:  # noqa
            states.setdefault(('CONSTRUCTION-FAILED', type(e).__name__), {'n': 0, 'params': {}, 'example': c})['n'] += 1
            continue
        stages = [('init', m)]
        for stage, mm in stages:
            mods = c07._modules(mm)
            key = tuple(type(mod).__name__ for _, mod in mods)
            st = states.setdefault(key, {'n': 0, 'params': {}, 'example': c})
            st['n'] += 1
            if st['n'] == 1:
                for nm, mod in mods:
                    for k, prm in mod.ParameterDict.items():
                        if hasattr(prm, 'Name'):
                            st['params'].setdefault(k, []).append((type(mod).__name__, flatten_param(prm)))
        try:
            m.read_parameters()
            mods = c07._modules(m)
            key = tuple(type(mod).__name__ for _, mod in mods)
            st = states.setdefault(key, {'n': 0, 'params': {}, 'example': c})
            st['n'] += 1
            if st['n'] == 1:
                for nm, mod in mods:
                    for k, prm in mod.ParameterDict.items():
                        if hasattr(prm, 'Name'):
                            st['params'].setdefault(k, []).append((type(mod).__name__, flatten_param_fresh(type(mod), m, k, prm)))
        except BaseException:  # noqa
            pass
    return states


def flatten_param_fresh(cls, m, k, prm):
    """declared definition (before user input touched the instance): from a fresh instance of the same class when possible."""
    try:
        fresh = cls(m)
        return flatten_param(fresh.ParameterDict[k])
    except BaseException:  # noqa
        return flatten_param(prm)


def generate(after_runs):
    """child: run the real generator; read the committed artefacts. With after_runs, the same interpreter has served simulations before (a
    many-non-defaults GEOPHIRES request and a HIP-RA-X request): the published schema must not depend on what the process did earlier."""
    if after_runs:
        from vf.core import sim
        from vf.checks import c08
        sim.simulate(c08.req_lines('okOdd'), None, want=())
        try:
            from hip_ra_x import HipRaXClient
            from hip_ra import HipRaInputParameters
            HipRaXClient().get_hip_ra_result(HipRaInputParameters(str(sim.write_input(c08.req_lines('hip'), name='hip-before-schema.txt'))))
        except Exception:  # noqa
            pass
    from geophires_x_schema_generator import GeophiresXSchemaGenerator, HipRaXSchemaGenerator
    g = GeophiresXSchemaGenerator()
    req, resu = g.generate_json_schema()
    hreq, _hres = HipRaXSchemaGenerator().generate_json_schema()
    d = os.path.join(runner.repo_src(), 'geophires_x_schema_generator')
    committed = {}
    for fn in ('geophires-request.json', 'geophires-result.json', 'hip-ra-x-request.json'):
        with open(os.path.join(d, fn)) as f:
            committed[fn] = json.load(f)
    # normalise through JSON (the generator returns python objects)
    gen = {'geophires-request.json': json.loads(json.dumps(req)), 'geophires-result.json': json.loads(json.dumps(resu)),
           'hip-ra-x-request.json': json.loads(json.dumps(hreq))}
    return {'generated': gen, 'committed': committed}


GENERATED_REPORTS = [  # configurations whose reports contain lines no stored report has
    ({'econ': 2, 'enduse': 1, 'plant': 1, 'res': 4, 'shape': [5, 3, 2]}, {'Total Capital Cost': '50', 'Maximum Drawdown': '0.05'}),
    ({'econ': 1, 'enduse': 2, 'plant': 5, 'res': 4, 'shape': [5, 3, 2]}, {'Surface Piping Length': '5'}),
    ({'econ': 3, 'enduse': 2, 'plant': 7, 'res': 4, 'shape': [5, 3, 2]}, {}),
    ({'econ': 1, 'enduse': 2, 'plant': 6, 'res': 3, 'shape': [5, 3, 2]}, {}),
    ({'econ': 2, 'enduse': 31, 'plant': 2, 'res': 1, 'shape': [5, 3, 2]}, {'Do Carbon Price Calculations': 'True', 'Starting Carbon Credit Value': '0.01', 'Ending Carbon Credit Value': '0.05'}),
]


# labels that only reports of earlier versions carry (no report writer of the pinned tree prints them); every other result-schema field has to be
# extracted from a real report - a field renamed in client and schema but not in the writer is extractable from no report
LEGACY_FIELDS = {('OPERATING AND MAINTENANCE COSTS (M$/yr)', 'Average annual pumping costs'), ('SUMMARY OF RESULTS', 'Direct-Use Cooling Breakeven Price')}


def result_fields(arg):
    """child: which (category, field) pairs of the result schema does the client extract from at least one report?"""
    schema, reports = arg
    import tempfile
    from vf.core import sim
    from geophires_x_client import GeophiresXResult
    found = set()
    bad = []
    reports = list(reports)
    for i, (fam, ch) in enumerate(GENERATED_REPORTS):
        o = sim.simulate(F.lines(F.override(F.fam_base(fam), ch)), want=('report',), input_name=f'gen{i}.txt')
        if o['status'] == 'accepted':
            gp = os.path.join(tempfile.gettempdir(), f'gen{i}.out')
            with open(gp, 'w') as f:
                f.write(o['report'])
            reports.append(gp)
        else:
            bad.append((f'generated-{i}', str(o.get('exc'))[:80]))
    for path in reports:
        try:
            r = GeophiresXResult(path).result
        except BaseException as e:  # noqa
            bad.append((os.path.basename(path), f'{type(e).__name__}: {e}'[:80]))
            continue
        for cat, fields in r.items():
            if isinstance(fields, dict):
                for fld, v in fields.items():
                    if v is not None:
                        found.add((cat, fld))
    # fields kept for reports of earlier versions: extractable if a line with that label is present at all
    synthetic = set()
    template = next((p for p in reports if p.endswith('example1.out')), reports[0])
    with open(template) as f:
        ttext = f.read()
    for cat, spec in schema.items():
        for fld in spec.get('properties', {}):
            if (cat, fld) in found or (cat, fld) not in LEGACY_FIELDS:
                continue
            sp = os.path.join(tempfile.gettempdir(), 'synthetic.out')
            with open(sp, 'w') as f:
                f.write(ttext + f'\n      {fld}:                  12.34 MUSD\n')
            try:
                r = GeophiresXResult(sp).result
                if isinstance(r.get(cat), dict) and r[cat].get(fld) is not None:
                    synthetic.add((cat, fld))
            except BaseException:  # noqa
                pass
    return {'found': sorted(found), 'unparsable': bad, 'synthetic': sorted(synthetic)}


def reach_task(payload):
    res = check.new_result()
    tag = runner.fork_exec(construct_batch, payload['combos'], timeout=900)
    if tag[0] != 'ok':
        res['infra'].append(f'construction batch failed: {tag[1]} {tag[2] if len(tag) > 2 else ""}')
        return res
    res['execs'] = len(payload['combos'])
    res['accepted'] = len(payload['combos'])
    res['steps'] = len(payload['combos'])
    res['reach'] = {str(k): v for k, v in tag[1].items()}
    for k in tag[1]:
        d = check.digest(list(k))
        res['states'].append(d)
        res['nontrivial'].append(d)
    return res


def _name_of(line):
    return line.split(',', 1)[0].strip()


def _run_report(lines):
    from vf.core import sim
    o = sim.simulate(lines, None, want=('report',))
    return {'status': o['status'], 'exc': (o.get('exc') or '')[:200], 'report': sim.strip_clock(o['report']) if o.get('report') is not None else None}


PROBE_TIMEOUT = 150.0      # seconds per run of a default probe (ordinary runs take 0.3-5 s)


def default_task(payload):
    """'the schema's default is the one the simulator enforces': for each parameter, the run that leaves it out and the run that supplies the
    schema's default (in the schema's unit) must be the same run - same acceptance, same report."""
    res = check.new_result()
    fam, lines = payload['fam_id'], payload['lines']
    base_names = {_name_of(l) for l in lines}
    shared = None
    for name, dflt in payload['probes']:
        omitted = [l for l in lines if _name_of(l) != name]
        if name not in base_names and shared is not None:
            a = shared
        else:
            tag = runner.fork_exec(_run_report, omitted, timeout=PROBE_TIMEOUT)
            res['execs'] += 1
            if tag[0] == 'timeout':
                # e.g. the closed-loop geometry at its default lateral depth: minutes per run; the probe is skipped and listed, not judged
                check.note(res, 'default_probe_not_run_time_limit', f'{fam}: {name} left out')
                continue
            if tag[0] != 'ok':
                res['infra'].append(f'[{fam}] run without {name!r} failed in the harness: {tag[1]}')
                continue
            a = tag[1]
            if name not in base_names:
                shared = a
        tag = runner.fork_exec(_run_report, omitted + [f'{name}, {dflt}'], timeout=PROBE_TIMEOUT)
        res['execs'] += 1
        if tag[0] == 'timeout':
            check.note(res, 'default_probe_not_run_time_limit', f'{fam}: {name} = {dflt}')
            continue
        if tag[0] != 'ok':
            res['infra'].append(f'[{fam}] run with {name!r} = {dflt} failed in the harness: {tag[1]}')
            continue
        b = tag[1]
        res['steps'] += 1
        d = check.digest([fam, name])
        res['states'].append(d)
        ctx = f'[{fam}] {name!r}: left out vs supplied as the schema default {dflt!r}'
        if a['status'] != 'accepted' and b['status'] != 'accepted':
            check.bump(res, 'default_probe_both_rejected')
            continue
        res['accepted'] += 1
        if a['status'] != b['status']:
            which = 'left out' if a['status'] != 'accepted' else 'supplied'
            check.fail(res, f'schema_default_not_enforced/acceptance/{name}', f'{ctx}: only the run with the parameter {which} is rejected ({(a if which == "left out" else b)["exc"]})')
            continue
        if a['report'] != b['report']:
            la, lb = a['report'].splitlines(), b['report'].splitlines()
            dl = next(((x, y) for x, y in zip(la, lb) if x != y), (f'{len(la)} lines', f'{len(lb)} lines'))
            n = sum(1 for x, y in zip(la, lb) if x != y) + abs(len(la) - len(lb))
            check.fail(res, f'schema_default_not_enforced/report/{name}', f'{ctx}: reports differ in {n} lines, first {dl[0].strip()!r} vs {dl[1].strip()!r}')
        else:
            res['nontrivial'].append(d)
    return res


def _special_cases(src_dir):
    """read-loop branches that single out a parameter by name: {(kind, text): [assignment targets outside the parameter itself]}"""
    import ast
    out = []
    own = ('ParameterToModify', 'ParamToModify')

    def root_and_attr(t):
        chain = []
        while isinstance(t, (ast.Attribute, ast.Subscript)):
            if isinstance(t, ast.Attribute):
                chain.append(t.attr)
            t = t.value
        return (t.id if isinstance(t, ast.Name) else None), chain[::-1]

    def names_in(test):
        found = []
        for n in ast.walk(test):
            if isinstance(n, ast.Compare) and len(n.ops) == 1 and isinstance(n.ops[0], ast.Eq):
                sides = [n.left, n.comparators[0]]
                txt = ast.unparse(n)
                if '.Name' in txt and any(isinstance(x, ast.Constant) and isinstance(x.value, str) for x in sides):
                    found.append(('eq', next(x.value for x in sides if isinstance(x, ast.Constant))))
            if isinstance(n, ast.Call) and isinstance(n.func, ast.Attribute) and n.func.attr == 'startswith' and '.Name' in ast.unparse(n.func.value) \
                    and n.args and isinstance(n.args[0], ast.Constant):
                found.append(('prefix', n.args[0].value))
        return found

    for fn in sorted(glob.glob(os.path.join(src_dir, '*.py'))):
        with open(fn, encoding='UTF-8') as f:
            tree = ast.parse(f.read())
        for node in ast.walk(tree):
            if not isinstance(node, ast.If):
                continue
            names = names_in(node.test)
            if not names:
                continue
            others = []
            for st in node.body:
                for sub in ast.walk(st):
                    tg = []
                    if isinstance(sub, ast.Assign):
                        tg = sub.targets
                    elif isinstance(sub, (ast.AugAssign, ast.AnnAssign)):
                        tg = [sub.target]
                    for t in tg:
                        for tt in (t.elts if isinstance(t, ast.Tuple) else [t]):
                            r, chain = root_and_attr(tt)
                            if r not in own:
                                others.append(chain)
            out.append((names, others))
    return out


def presence_switched(arg):
    """Parameters for which 'left out' is by design not the same as 'default supplied', found mechanically in the source:
      * the parameter's `.Provided` flag is consulted somewhere;
      * a read loop singles the parameter out by name and, in that branch, assigns anything other than the parameter itself (a mode flag,
        another parameter, a derived attribute) - presence is then a switch;
      * the parameter's value is assigned inside another parameter's branch - its default is conditional on that other parameter.
    A branch that only rewrites the parameter's own value/units (e.g. a unit conversion) is NOT a switch: there the relation must hold."""
    import re
    fam_id, lines = arg
    src_dir = os.path.join(runner.repo_src(), 'geophires_x')
    attrs = set()
    for fn in glob.glob(os.path.join(src_dir, '*.py')):
        with open(fn, encoding='UTF-8') as f:
            attrs |= set(re.findall(r'(\w+)\.Provided\b', f.read()))
    cases = _special_cases(src_dir)
    m, mods = c07._build(lines, read=False)
    params = {}
    for nm, mod in mods:
        for a, v in vars(mod).items():
            if hasattr(v, 'Name') and hasattr(v, 'Provided'):
                params.setdefault(a, set()).add(v.Name.strip())
    all_names = set().union(*params.values()) if params else set()
    out = {}
    for a in attrs & set(params):
        for n in params[a]:
            out[n] = 'Provided flag consulted'
    for names, others in cases:
        if not others:
            continue
        for kind, text in names:
            for n in all_names:
                if (kind == 'eq' and n == text.strip()) or (kind == 'prefix' and n.startswith(text)):
                    out.setdefault(n, 'presence is a switch in a read loop')
        for chain in others:
            for a in chain:
                for n in params.get(a, ()):
                    out.setdefault(n, "assigned in another parameter's read-loop branch")
    return out


def _default_text(s):
    d = s.get('default')
    if d is None or isinstance(d, (list, dict)):
        return None
    if isinstance(d, bool):
        return 'True' if d else 'False'
    if isinstance(d, (int, float)):
        return repr(d)
    d = str(d).strip()
    if not d or s.get('type') == 'string' and not d.replace('.', '', 1).lstrip('-').isdigit():
        return None         # file names, free text
    return d


def task(payload):
    return default_task(payload) if 'probes' in payload and 'fam_id' in payload and payload.get('stage') == 'default' else reach_task(payload)


def run(tier, seed, budget=None):
    import time
    runner.preload()
    col = check.Collector(PID, tier, seed, level='exploration', module=__name__)
    combos = [c for c in itertools.product(RES, (False, True), ECON, PLANT, ENDUSE, (False, True), (False, True))]
    B = 120
    payloads = [{'combos': combos[i:i + B]} for i in range(0, len(combos), B)]
    col.planned = len(payloads)
    accepted = {}        # name -> list of (class, definition)
    class_tuples = {}
    deadline = time.time() + (budget or e1.DEFAULT_BUDGET[tier])
    raw = {}
    for idx, tagged in runner.run_tasks(_reach_with_payload, payloads, deadline=deadline):
        if tagged[0] == 'ok':
            reach = tagged[1].pop('reach', {})
            for k, st in reach.items():
                ct = class_tuples.setdefault(k, {'n': 0, 'example': st['example']})
                ct['n'] += st['n']
                for name, defs in st['params'].items():
                    for cls, rec in defs:
                        lst = accepted.setdefault(name, [])
                        if (cls, rec) not in lst:
                            lst.append((cls, rec))
        col.add(idx, payloads[idx], tagged)
    if col.tasks < len(payloads):
        col.capped = True
    res = check.new_result()
    # --- generated schema, committed files
    tag = runner.fork_exec(generate, False, timeout=600)
    res['execs'] += 1
    if tag[0] != 'ok':
        res['infra'].append(f'schema generation failed: {tag[1]} {tag[2] if len(tag) > 2 else ""}')
        col.add(len(payloads), {'stage': 'generate'}, ('ok', res))
        return col.finish(None, confirm=False)
    gen, committed = tag[1]['generated'], tag[1]['committed']
    for fn in gen:
        if gen[fn] != committed[fn]:
            gp, cp = gen[fn].get('properties', {}), committed[fn].get('properties', {})
            only_g = sorted(set(gp) - set(cp))[:5]
            only_c = sorted(set(cp) - set(gp))[:5]
            diff = [k for k in gp if k in cp and gp[k] != cp[k]][:5]
            check.fail(res, f'committed_differs/{fn}', f'committed {fn} differs from the generated schema (only generated: {only_g}; only committed: {only_c}; different: {diff})')
    # the same generation in an interpreter that has already simulated
    tag2 = runner.fork_exec(generate, True, timeout=900)
    res['execs'] += 1
    if tag2[0] != 'ok':
        res['infra'].append(f'schema generation after simulations failed: {tag2[1]} {tag2[2] if len(tag2) > 2 else ""}')
    else:
        for fn in gen:
            if tag2[1]['generated'][fn] != gen[fn]:
                gp, cp = tag2[1]['generated'][fn].get('properties', {}), gen[fn].get('properties', {})
                diff = [k for k in gp if gp.get(k) != cp.get(k)][:5] + [k for k in cp if k not in gp][:3]
                check.fail(res, f'generated_depends_on_history/{fn}', f'{fn} generated after simulations in the same interpreter differs from the one generated in a fresh interpreter: {diff}; '
                           f'e.g. {json.dumps(gp.get(diff[0]) if diff else None)[:160]} vs {json.dumps(cp.get(diff[0]) if diff else None)[:160]}')
    props = gen['geophires-request.json']['properties']
    real_names = {n for n in accepted if not any(t[0] in ('CONSTRUCTION-FAILED',) for t in accepted[n])}
    for n in sorted(real_names - set(props)):
        owners = sorted({c for c, _ in accepted[n]})
        check.fail(res, f'missing/{n}', f'parameter {n!r} is accepted by {owners} but absent from the generated request schema')
    for n in sorted(set(props) - real_names):
        check.fail(res, f'extra/{n}', f'request schema lists {n!r} but no reachable module configuration accepts it')
    # --- type/default/unit/bounds for parameters defined identically wherever accepted
    consistent = 0
    for n in sorted(real_names & set(props)):
        defs = [rec for _, rec in accepted[n]]
        if any(d != defs[0] for d in defs[1:]):
            check.note(res, 'redefined_by_specialised_modules', n)
            continue
        consistent += 1
        d, s = defs[0], props[n]
        if s.get('type') != d['type']:
            check.fail(res, f'schema_vs_enforced/type/{n}', f'{n}: schema type {s.get("type")!r}, simulator {d["type"]!r}')
        sd, dd = s.get('default'), d['default']
        if isinstance(sd, str) and isinstance(dd, (int, float)) and not isinstance(dd, bool):
            try:
                sd = float(sd)      # the generator prints some floats as strings ('7.0')
            except ValueError:
                pass
        same_default = (sd == dd) or (isinstance(sd, (int, float)) and isinstance(dd, (int, float)) and not isinstance(sd, bool) and mv.close(float(sd), float(dd), 1e-9, 1e-12))
        if not same_default:
            check.fail(res, f'schema_vs_enforced/default/{n}', f'{n}: schema default {sd!r}, simulator {dd!r}')
        if (s.get('units') or None) != (d['units'] or None):
            check.fail(res, f'schema_vs_enforced/units/{n}', f'{n}: schema units {s.get("units")!r}, simulator {d["units"]!r}')
        for side in ('min', 'max'):
            sv, dv = s.get('minimum' if side == 'min' else 'maximum'), d[side]
            if dv is None and sv is None:
                continue
            if dv is None or sv is None or not mv.close(float(sv), float(dv), 1e-12, 0.0):
                check.fail(res, f'schema_vs_enforced/{side}/{n}', f'{n}: schema {side} {sv!r}, simulator enforces {dv!r}')
    check.bump(res, 'parameters_accepted', len(real_names))
    check.bump(res, 'parameters_in_schema', len(props))
    check.bump(res, 'parameters_defined_identically', consistent)
    col.add(len(payloads), {'stage': 'compare'}, ('ok', res))
    # --- enforcement probes at the SCHEMA's bounds (standard family), through the real reader / client
    res2 = check.new_result()
    fam_lines = F.lines(F.base(1, 1, 1, 4))
    tagd = runner.fork_exec(c07.discover, ('std', fam_lines), timeout=300)
    probes = []
    if tagd[0] == 'ok':
        for n, rec in sorted(tagd[1]['params'].items()):
            s = props.get(n)
            if not s or n in (res['sets'].get('redefined_by_specialised_modules') or []):
                continue
            lo, hi = s.get('minimum'), s.get('maximum')
            if lo is None or hi is None or s.get('type') not in ('number', 'integer'):
                continue
            if s['type'] == 'number':
                cands = [(repr(float(hi)), 'bound', 'schema_max'), (repr(float(lo)), 'bound', 'schema_min'),
                         (repr(math.nextafter(float(hi), math.inf)), 'outside', 'above_schema_max'), (repr(math.nextafter(float(lo), -math.inf)), 'outside', 'below_schema_min')]
            else:
                cands = [(str(int(hi)), 'bound', 'schema_max'), (str(int(lo)), 'bound', 'schema_min'), (str(int(hi) + 1), 'outside', 'above_schema_max'),
                         (str(int(lo) - 1), 'outside', 'below_schema_min')]
            for v, kind, label in cands:
                if s.get('default') is not None and isinstance(s['default'], (int, float)) and float(v) == float(s['default']):
                    continue
                probes.append([n, v, kind, label, s['type']])
    else:
        res2['infra'].append(f'discovery failed: {tagd[1]}')
    pp = [{'fam_id': 'std', 'lines': fam_lines, 'probes': probes[i:i + 40]} for i in range(0, len(probes), 40)]
    base_idx = len(payloads) + 1
    for idx, tagged in runner.run_tasks(c07.task, pp, deadline=deadline):
        if tagged[0] == 'ok':
            for f in tagged[1]['fails']:
                f['key'] = 'schema_bound_not_enforced/' + f['key']
        col.add(base_idx, pp[idx], tagged)
    # --- the schema's defaults are the values used when a parameter is left out (every family, every parameter it accepts)
    fams = c07.family_list(tier)
    quick_fams = ('std-mpf-subORC', 'std-lhs-industrial', 'std-tdp-superORC-cogen', 'addons-sdacgt', 'std-cyl-district')
    dp = []
    redefined = set(res['sets'].get('redefined_by_specialised_modules') or [])
    for fam_id, fl in fams:
        if fam_id == 'hip-ra-x' or (tier == 'quick' and fam_id not in quick_fams):
            continue
        tagf = runner.fork_exec(c07.discover, (fam_id, fl), timeout=300)
        if tagf[0] != 'ok':
            res2['infra'].append(f'discovery failed for {fam_id}: {tagf[1]}')
            continue
        tags = runner.fork_exec(presence_switched, (fam_id, fl), timeout=300)
        if tags[0] != 'ok':
            res2['infra'].append(f'presence scan failed for {fam_id}: {tags[1]}')
            continue
        switched = tags[1]
        names = sorted(set(tagf[1]['params']) | {_name_of(l) for l in fl})
        pr = []
        for n in names:
            if n not in props or n in redefined or _default_text(props[n]) is None:
                continue
            sp = props[n]
            if n in switched:
                check.note(res2, 'default_probe_skipped_by_design', f'{n} ({switched[n]})')
                continue
            try:
                dv = float(sp['default'])
                if (sp.get('minimum') is not None and dv < float(sp['minimum'])) or (sp.get('maximum') is not None and dv > float(sp['maximum'])):
                    check.note(res2, 'default_probe_skipped_default_is_a_not_provided_sentinel', n)
                    continue
            except (TypeError, ValueError):
                pass
            pr.append([n, _default_text(sp)])
        for i in range(0, len(pr), 12):
            dp.append({'stage': 'default', 'fam_id': fam_id, 'lines': fl, 'probes': pr[i:i + 12]})
    for idx, tagged in runner.run_tasks(default_task, dp, deadline=deadline):
        col.add(base_idx + 2 + idx, {k: v for k, v in dp[idx].items() if k != 'lines'}, tagged)
    col.add(base_idx + 2 + len(dp), {'stage': 'probe-planning'}, ('ok', res2))
    # --- result schema fields are extractable
    res3 = check.new_result()
    rs = gen['geophires-result.json']['properties']
    reports = sorted(glob.glob(os.path.join(runner.REPO, 'tests', 'examples', '*.out')) + glob.glob(os.path.join(runner.REPO, 'tests', '*.out'))
                     + glob.glob(os.path.join(runner.REPO, 'tests', 'geophires_x_client_tests', '*.out')))
    tagr = runner.fork_exec(result_fields, (rs, reports), timeout=900)
    res3['execs'] += len(reports)
    if tagr[0] != 'ok':
        res3['infra'].append(f'result extraction failed: {tagr[1]} {tagr[2] if len(tagr) > 2 else ""}')
    else:
        found = {tuple(x) for x in tagr[1]['found']}
        n_fields = 0
        for cat, spec in rs.items():
            for fld in spec.get('properties', {}):
                n_fields += 1
                if (cat, fld) not in found and (cat, fld) in {tuple(x) for x in tagr[1]['synthetic']}:
                    check.note(res3, 'result_fields_extractable_only_from_a_legacy_style_line', f'{cat} / {fld}')
                elif (cat, fld) not in found:
                    check.fail(res3, f'result_field_never_extracted/{cat}/{fld}', f'result schema field {cat} / {fld} is not extracted by the client from any of {len(reports)} reports')
        check.bump(res3, 'result_schema_fields', n_fields)
        check.bump(res3, 'reports_parsed', len(reports) - len(tagr[1]['unparsable']))
    col.add(base_idx + 1, {'stage': 'result-fields'}, ('ok', res3))
    col.planned = col.tasks if not col.capped else col.planned
    col.rule = ('reachability over the complete product Reservoir Model 0..8 x Is AGS x Economic Model 1..4 x Power Plant Type 1..9 x End-Use Option (8) x '
                'add-on x S-DAC-GT = 10368 real Model constructions (+ parameter reading where it succeeds); states = reachable module-class tuples; '
                'then complete comparison of the union of accepted parameters with the generated schema, committed vs generated files, enforcement '
                'probes at the schema bounds for the standard family, default-enforcement probes (for every family and every parameter it accepts: the '
                'run that leaves the parameter out vs the run that supplies the schema default - same acceptance, same report), and every '
                'result-schema field against all stored reports')
    col.assumptions = ['parameters redefined with different defaults/bounds by specialised modules are excluded from the bound/default clause (listed in evidence)',
                       'result-field extractability is judged on the stored reports of tests/ plus five generated reports; two named legacy fields no current report prints are accepted if the client extracts them from a line carrying that label (listed in evidence)']
    col.extra['reachable_class_tuples'] = len(class_tuples)
    col.extra['class_tuple_examples'] = [{'classes': k, 'constructions': v['n'], 'example_selectors': v['example']} for k, v in list(class_tuples.items())[:8]]
    col.samples = col.samples[:2] + [{'reachable_class_tuple': k, 'constructions': v['n'], 'example_selectors': v['example']} for k, v in list(class_tuples.items())[:3]]
    return col.finish(None, confirm=False)


def _reach_with_payload(payload):
    return reach_task(payload)
