"""
C19 — the published parameter schema matches what the simulator accepts.
Reachability: the configuration-selection machine of Model.__init__/read_parameters is driven over the complete product of
selector values (construction and parameter reading only); the reachable module-class tuples are the states and the union
of their ParameterDict keys is "what the simulator accepts". Then: set equality with the generated request schema, agreement
of type/default/unit/bounds for parameters defined identically everywhere (plus enforcement probes at the schema's own
bounds through the C07 reader probes), committed files vs generated ones, and extractability of every result-schema field.
"""
import glob
import itertools
import json
import math
import os
import sys

from vf.core import e1, check, runner, mv
from vf import families as F
from vf.checks import c07

PID = 'C19'

RES = list(range(0, 9))
ECON = [1, 2, 3, 4]
PLANT = list(range(1, 10))
ENDUSE = [1, 2, 31, 32, 41, 42, 51, 52]


def flatten_param(p):
    from geophires_x.Parameter import floatParameter, intParameter, boolParameter, strParameter, listParameter
    t = getattr(p, 'json_parameter_type', None)
    d = p.DefaultValue
    d = getattr(d, 'int_value', d)
    rec = {'type': t, 'default': d if isinstance(d, (int, float, str, bool, type(None))) else (list(d) if isinstance(d, (list, tuple)) else str(d)),
           'units': getattr(p.CurrentUnits, 'value', None) if not isinstance(p.CurrentUnits, str) else p.CurrentUnits}
    if isinstance(p, intParameter):
        rng = [int(getattr(x, 'int_value', x)) for x in p.AllowableRange]
        rec['min'], rec['max'] = (min(rng), max(rng)) if rng else (None, None)
    elif isinstance(p, (floatParameter, listParameter)):
        rec['min'], rec['max'] = float(p.Min), float(p.Max)
    else:
        rec['min'] = rec['max'] = None
    return rec


def construct_batch(combos):
    """child: build the real Model for each selector combination; collect class tuples and parameter definitions."""
    import tempfile
    from vf.core import sim
    from geophires_x.Model import Model
    os.chdir(os.path.join(runner.repo_src(), 'geophires_x'))
    states = {}
    for c in combos:
        res, ags, econ, plant, eu, addon, sdac = c
        lines = [f'Reservoir Model, {res}', f'Economic Model, {econ}', f'Power Plant Type, {plant}', f'End-Use Option, {eu}', 'Print Output to Console, 0']
        if ags:
            lines.append('Is AGS, True')
        if addon:
            lines += ['Do AddOn Calculations, True', 'AddOn Nickname 1, x', 'AddOn CAPEX 1, 1', 'AddOn OPEX 1, 0.1', 'AddOn Electricity Gained 1, 0',
                      'AddOn Heat Gained 1, 0', 'AddOn Profit Gained 1, 0']
        if sdac:
            lines.append('Do S-DAC-GT Calculations, True')
        if plant == 7:
            lines += [f'District Heating Demand File Name, {F.demand_csv()}', 'District Heating Demand Option, 1', 'District Heating Demand Data Column Number, 2']
        p = sim.write_input(lines, name=f'c{abs(hash(tuple(c)))}.txt')
        sys.argv = ['', str(p), os.path.join(tempfile.gettempdir(), 'o.out')]
        try:
            m = Model(enable_geophires_logging_config=False)
        except BaseException as e:  # noqa
            states.setdefault(('CONSTRUCTION-FAILED', type(e).__name__), {'n': 0, 'params': {}, 'example': c})['n'] += 1
            continue
        stages = [('init', m)]
        for stage, mm in stages:
            mods = c07._modules(mm)
            key = tuple(type(mod).__name__ for _, mod in mods)
            st = states.setdefault(key, {'n': 0, 'params': {}, 'example': c})
            st['n'] += 1
            if st['n'] == 1:
                for nm, mod in mods:
                    for k, prm in mod.ParameterDict.items():
                        if hasattr(prm, 'Name'):
                            st['params'].setdefault(k, []).append((type(mod).__name__, flatten_param(prm)))
        try:
            m.read_parameters()
            mods = c07._modules(m)
            key = tuple(type(mod).__name__ for _, mod in mods)
            st = states.setdefault(key, {'n': 0, 'params': {}, 'example': c})
            st['n'] += 1
            if st['n'] == 1:
                for nm, mod in mods:
                    for k, prm in mod.ParameterDict.items():
                        if hasattr(prm, 'Name'):
                            st['params'].setdefault(k, []).append((type(mod).__name__, flatten_param_fresh(type(mod), m, k, prm)))
        except BaseException:  # noqa
            pass
    return states


def flatten_param_fresh(cls, m, k, prm):
    """declared definition (before user input touched the instance): from a fresh instance of the same class when possible."""
    try:
        fresh = cls(m)
        return flatten_param(fresh.ParameterDict[k])
    except BaseException:  # noqa
        return flatten_param(prm)


def generate(_):
    """child: run the real generator; read the committed artefacts."""
    from geophires_x_schema_generator import GeophiresXSchemaGenerator, HipRaXSchemaGenerator
    g = GeophiresXSchemaGenerator()
    req, resu = g.generate_json_schema()
    hreq, _hres = HipRaXSchemaGenerator().generate_json_schema()
    d = os.path.join(runner.repo_src(), 'geophires_x_schema_generator')
    committed = {}
    for fn in ('geophires-request.json', 'geophires-result.json', 'hip-ra-x-request.json'):
        with open(os.path.join(d, fn)) as f:
            committed[fn] = json.load(f)
    # normalise through JSON (the generator returns python objects)
    gen = {'geophires-request.json': json.loads(json.dumps(req)), 'geophires-result.json': json.loads(json.dumps(resu)),
           'hip-ra-x-request.json': json.loads(json.dumps(hreq))}
    return {'generated': gen, 'committed': committed}


GENERATED_REPORTS = [  # configurations whose reports contain lines no stored report has
    ({'econ': 2, 'enduse': 1, 'plant': 1, 'res': 4, 'shape': [5, 3, 2]}, {'Total Capital Cost': '50', 'Maximum Drawdown': '0.05'}),
    ({'econ': 1, 'enduse': 2, 'plant': 5, 'res': 4, 'shape': [5, 3, 2]}, {'Surface Piping Length': '5'}),
    ({'econ': 3, 'enduse': 2, 'plant': 7, 'res': 4, 'shape': [5, 3, 2]}, {}),
    ({'econ': 1, 'enduse': 2, 'plant': 6, 'res': 3, 'shape': [5, 3, 2]}, {}),
    ({'econ': 2, 'enduse': 31, 'plant': 2, 'res': 1, 'shape': [5, 3, 2]}, {'Do Carbon Price Calculations': 'True', 'Starting Carbon Credit Value': '0.01', 'Ending Carbon Credit Value': '0.05'}),
]


def result_fields(arg):
    """child: which (category, field) pairs of the result schema does the client extract from at least one report?"""
    schema, reports = arg
    import tempfile
    from vf.core import sim
    from geophires_x_client import GeophiresXResult
    found = set()
    bad = []
    reports = list(reports)
    for i, (fam, ch) in enumerate(GENERATED_REPORTS):
        o = sim.simulate(F.lines(F.override(F.fam_base(fam), ch)), want=('report',), input_name=f'gen{i}.txt')
        if o['status'] == 'accepted':
            gp = os.path.join(tempfile.gettempdir(), f'gen{i}.out')
            with open(gp, 'w') as f:
                f.write(o['report'])
            reports.append(gp)
        else:
            bad.append((f'generated-{i}', str(o.get('exc'))[:80]))
    for path in reports:
        try:
            r = GeophiresXResult(path).result
        except BaseException as e:  # noqa
            bad.append((os.path.basename(path), f'{type(e).__name__}: {e}'[:80]))
            continue
        for cat, fields in r.items():
            if isinstance(fields, dict):
                for fld, v in fields.items():
                    if v is not None:
                        found.add((cat, fld))
    # fields kept for reports of earlier versions: extractable if a line with that label is present at all
    synthetic = set()
    template = next((p for p in reports if p.endswith('example1.out')), reports[0])
    with open(template) as f:
        ttext = f.read()
    for cat, spec in schema.items():
        for fld in spec.get('properties', {}):
            if (cat, fld) in found:
                continue
            sp = os.path.join(tempfile.gettempdir(), 'synthetic.out')
            with open(sp, 'w') as f:
                f.write(ttext + f'\n      {fld}:                  12.34 MUSD\n')
            try:
                r = GeophiresXResult(sp).result
                if isinstance(r.get(cat), dict) and r[cat].get(fld) is not None:
                    synthetic.add((cat, fld))
            except BaseException:  # noqa
                pass
    return {'found': sorted(found), 'unparsable': bad, 'synthetic': sorted(synthetic)}


def reach_task(payload):
    res = check.new_result()
    tag = runner.fork_exec(construct_batch, payload['combos'], timeout=900)
    if tag[0] != 'ok':
        res['infra'].append(f'construction batch failed: {tag[1]} {tag[2] if len(tag) > 2 else ""}')
        return res
    res['execs'] = len(payload['combos'])
    res['accepted'] = len(payload['combos'])
    res['steps'] = len(payload['combos'])
    res['reach'] = {str(k): v for k, v in tag[1].items()}
    for k in tag[1]:
        d = check.digest(list(k))
        res['states'].append(d)
        res['nontrivial'].append(d)
    return res


def task(payload):
    return reach_task(payload)


def run(tier, seed, budget=None):
    import time
    runner.preload()
    col = check.Collector(PID, tier, seed, level='exploration', module=__name__)
    combos = [c for c in itertools.product(RES, (False, True), ECON, PLANT, ENDUSE, (False, True), (False, True))]
    B = 120
    payloads = [{'combos': combos[i:i + B]} for i in range(0, len(combos), B)]
    col.planned = len(payloads)
    accepted = {}        # name -> list of (class, definition)
    class_tuples = {}
    deadline = time.time() + (budget or e1.DEFAULT_BUDGET[tier])
    raw = {}
    for idx, tagged in runner.run_tasks(_reach_with_payload, payloads, deadline=deadline):
        if tagged[0] == 'ok':
            reach = tagged[1].pop('reach', {})
            for k, st in reach.items():
                ct = class_tuples.setdefault(k, {'n': 0, 'example': st['example']})
                ct['n'] += st['n']
                for name, defs in st['params'].items():
                    for cls, rec in defs:
                        lst = accepted.setdefault(name, [])
                        if (cls, rec) not in lst:
                            lst.append((cls, rec))
        col.add(idx, payloads[idx], tagged)
    if col.tasks < len(payloads):
        col.capped = True
    res = check.new_result()
    # --- generated schema, committed files
    tag = runner.fork_exec(generate, None, timeout=600)
    res['execs'] += 1
    if tag[0] != 'ok':
        res['infra'].append(f'schema generation failed: {tag[1]} {tag[2] if len(tag) > 2 else ""}')
        col.add(len(payloads), {'stage': 'generate'}, ('ok', res))
        return col.finish(None, confirm=False)
    gen, committed = tag[1]['generated'], tag[1]['committed']
    for fn in gen:
        if gen[fn] != committed[fn]:
            gp, cp = gen[fn].get('properties', {}), committed[fn].get('properties', {})
            only_g = sorted(set(gp) - set(cp))[:5]
            only_c = sorted(set(cp) - set(gp))[:5]
            diff = [k for k in gp if k in cp and gp[k] != cp[k]][:5]
            check.fail(res, f'committed_differs/{fn}', f'committed {fn} differs from the generated schema (only generated: {only_g}; only committed: {only_c}; different: {diff})')
    props = gen['geophires-request.json']['properties']
    real_names = {n for n in accepted if not any(t[0] in ('CONSTRUCTION-FAILED',) for t in accepted[n])}
    for n in sorted(real_names - set(props)):
        owners = sorted({c for c, _ in accepted[n]})
        check.fail(res, f'missing/{n}', f'parameter {n!r} is accepted by {owners} but absent from the generated request schema')
    for n in sorted(set(props) - real_names):
        check.fail(res, f'extra/{n}', f'request schema lists {n!r} but no reachable module configuration accepts it')
    # --- type/default/unit/bounds for parameters defined identically wherever accepted
    consistent = 0
    for n in sorted(real_names & set(props)):
        defs = [rec for _, rec in accepted[n]]
        if any(d != defs[0] for d in defs[1:]):
            check.note(res, 'redefined_by_specialised_modules', n)
            continue
        consistent += 1
        d, s = defs[0], props[n]
        if s.get('type') != d['type']:
            check.fail(res, f'schema_vs_enforced/type/{n}', f'{n}: schema type {s.get("type")!r}, simulator {d["type"]!r}')
        sd, dd = s.get('default'), d['default']
        if isinstance(sd, str) and isinstance(dd, (int, float)) and not isinstance(dd, bool):
            try:
                sd = float(sd)      # the generator prints some floats as strings ('7.0')
            except ValueError:
                pass
        same_default = (sd == dd) or (isinstance(sd, (int, float)) and isinstance(dd, (int, float)) and not isinstance(sd, bool) and mv.close(float(sd), float(dd), 1e-9, 1e-12))
        if not same_default:
            check.fail(res, f'schema_vs_enforced/default/{n}', f'{n}: schema default {sd!r}, simulator {dd!r}')
        if (s.get('units') or None) != (d['units'] or None):
            check.fail(res, f'schema_vs_enforced/units/{n}', f'{n}: schema units {s.get("units")!r}, simulator {d["units"]!r}')
        for side in ('min', 'max'):
            sv, dv = s.get('minimum' if side == 'min' else 'maximum'), d[side]
            if dv is None and sv is None:
                continue
            if dv is None or sv is None or not mv.close(float(sv), float(dv), 1e-12, 0.0):
                check.fail(res, f'schema_vs_enforced/{side}/{n}', f'{n}: schema {side} {sv!r}, simulator enforces {dv!r}')
    check.bump(res, 'parameters_accepted', len(real_names))
    check.bump(res, 'parameters_in_schema', len(props))
    check.bump(res, 'parameters_defined_identically', consistent)
    col.add(len(payloads), {'stage': 'compare'}, ('ok', res))
    # --- enforcement probes at the SCHEMA's bounds (standard family), through the real reader / client
    res2 = check.new_result()
    fam_lines = F.lines(F.base(1, 1, 1, 4))
    tagd = runner.fork_exec(c07.discover, ('std', fam_lines), timeout=300)
    probes = []
    if tagd[0] == 'ok':
        for n, rec in sorted(tagd[1]['params'].items()):
            s = props.get(n)
            if not s or n in (res['sets'].get('redefined_by_specialised_modules') or []):
                continue
            lo, hi = s.get('minimum'), s.get('maximum')
            if lo is None or hi is None or s.get('type') not in ('number', 'integer'):
                continue
            if s['type'] == 'number':
                cands = [(repr(float(hi)), 'bound', 'schema_max'), (repr(float(lo)), 'bound', 'schema_min'),
                         (repr(math.nextafter(float(hi), math.inf)), 'outside', 'above_schema_max'), (repr(math.nextafter(float(lo), -math.inf)), 'outside', 'below_schema_min')]
            else:
                cands = [(str(int(hi)), 'bound', 'schema_max'), (str(int(lo)), 'bound', 'schema_min'), (str(int(hi) + 1), 'outside', 'above_schema_max'),
                         (str(int(lo) - 1), 'outside', 'below_schema_min')]
            for v, kind, label in cands:
                if s.get('default') is not None and isinstance(s['default'], (int, float)) and float(v) == float(s['default']):
                    continue
                probes.append([n, v, kind, label, s['type']])
    else:
        res2['infra'].append(f'discovery failed: {tagd[1]}')
    pp = [{'fam_id': 'std', 'lines': fam_lines, 'probes': probes[i:i + 40]} for i in range(0, len(probes), 40)]
    base_idx = len(payloads) + 1
    for idx, tagged in runner.run_tasks(c07.task, pp, deadline=deadline):
        if tagged[0] == 'ok':
            for f in tagged[1]['fails']:
                f['key'] = 'schema_bound_not_enforced/' + f['key']
        col.add(base_idx, pp[idx], tagged)
    # --- result schema fields are extractable
    res3 = check.new_result()
    rs = gen['geophires-result.json']['properties']
    reports = sorted(glob.glob(os.path.join(runner.REPO, 'tests', 'examples', '*.out')) + glob.glob(os.path.join(runner.REPO, 'tests', '*.out'))
                     + glob.glob(os.path.join(runner.REPO, 'tests', 'geophires_x_client_tests', '*.out')))
    tagr = runner.fork_exec(result_fields, (rs, reports), timeout=900)
    res3['execs'] += len(reports)
    if tagr[0] != 'ok':
        res3['infra'].append(f'result extraction failed: {tagr[1]} {tagr[2] if len(tagr) > 2 else ""}')
    else:
        found = {tuple(x) for x in tagr[1]['found']}
        n_fields = 0
        for cat, spec in rs.items():
            for fld in spec.get('properties', {}):
                n_fields += 1
                if (cat, fld) not in found and (cat, fld) in {tuple(x) for x in tagr[1]['synthetic']}:
                    check.note(res3, 'result_fields_extractable_only_from_a_legacy_style_line', f'{cat} / {fld}')
                elif (cat, fld) not in found:
                    check.fail(res3, f'result_field_never_extracted/{cat}/{fld}', f'result schema field {cat} / {fld} is not extracted by the client from any of {len(reports)} reports')
        check.bump(res3, 'result_schema_fields', n_fields)
        check.bump(res3, 'reports_parsed', len(reports) - len(tagr[1]['unparsable']))
    col.add(base_idx + 1, {'stage': 'result-fields'}, ('ok', res3))
    col.planned = col.tasks if not col.capped else col.planned
    col.rule = ('reachability over the complete product Reservoir Model 0..8 x Is AGS x Economic Model 1..4 x Power Plant Type 1..9 x End-Use Option (8) x '
                'add-on x S-DAC-GT = 10368 real Model constructions (+ parameter reading where it succeeds); states = reachable module-class tuples; '
                'then complete comparison of the union of accepted parameters with the generated schema, committed vs generated files, enforcement '
                'probes at the schema bounds for the standard family, and every result-schema field against all stored reports')
    col.assumptions = ['parameters redefined with different defaults/bounds by specialised modules are excluded from the bound/default clause (listed in evidence)',
                       'result-field extractability is judged on the stored reports of tests/ plus five generated reports; fields no current report prints are accepted if the client extracts them from a line carrying that label (listed in evidence)']
    col.extra['reachable_class_tuples'] = len(class_tuples)
    col.extra['class_tuple_examples'] = [{'classes': k, 'constructions': v['n'], 'example_selectors': v['example']} for k, v in list(class_tuples.items())[:8]]
    col.samples = col.samples[:2] + [{'reachable_class_tuple': k, 'constructions': v['n'], 'example_selectors': v['example']} for k, v in list(class_tuples.items())[:3]]
    return col.finish(None, confirm=False)


def _reach_with_payload(payload):
    return reach_task(payload)
