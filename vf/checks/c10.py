"""C10 — the client returns exactly what the report says (E1, unary: client parser vs the independent tokeniser; JSON vs snapshot; hash seeds)."""
import csv
import glob
import io
import json
import math
import os
import subprocess
import sys
import tempfile

from vf.core import e1, check, runner, sim, snap
from vf import families as F
from vf.oracles import report_tok as T, units_ref as UR
from vf.checks import c09

PID = 'C10'
CLIENT_TABLE = {'POWER GENERATION PROFILE': 'HEATING, COOLING AND/OR ELECTRICITY PRODUCTION PROFILE',
                'HEAT AND/OR ELECTRICITY EXTRACTION AND GENERATION PROFILE': 'ANNUAL HEATING, COOLING AND/OR ELECTRICITY PRODUCTION PROFILE',
                'REVENUE & CASHFLOW PROFILE': 'REVENUE & CASHFLOW PROFILE', 'EXTENDED ECONOMIC PROFILE': 'EXTENDED ECONOMIC PROFILE', 'S-DAC-GT PROFILE': 'S-DAC-GT PROFILE'}
SKIP_CATS = ('metadata', 'Simulation Metadata')


def num_equal(a, b):
    if a is None or b is None:
        # the client has no representation for a printed 'nan' other than None: both mean "no number"
        other = b if a is None else a
        return other is None or (isinstance(other, float) and math.isnan(other))
    if isinstance(a, float) and math.isnan(a):
        return isinstance(b, float) and math.isnan(b)
    return float(a) == float(b)


def compare_result(result, report_text):
    """client result dict vs tokenised report -> (fails, counters, shape)"""
    fails, counters = [], {'client_fields_checked': 0, 'client_table_cells_checked': 0}
    rep = T.parse(report_text)
    by_section = {}
    for f in rep.fields:
        by_section.setdefault((f.section, f.label), []).append(f)
    by_label = {}
    for f in rep.fields:
        by_label.setdefault(f.label, []).append(f)
    for cat, fields in result.items():
        if cat in SKIP_CATS or not isinstance(fields, dict):
            continue
        for fld, vu in fields.items():
            if vu is None:
                continue
            if not isinstance(vu, dict):
                continue           # '=' delimited string fields
            cands = by_section.get((cat, fld))
            where = 'own section'
            if not cands:
                cands = by_label.get(fld)
                where = 'another section'
            if not cands:
                fails.append((f'client/field_not_in_report/{cat}/{fld}', f'client reports {cat} / {fld} = {vu} but the report has no line with exactly that label'))
                continue
            counters['client_fields_checked'] += 1
            if where == 'another section' and len({(c.raw, c.unit) for c in cands}) > 1:
                fails.append((f'client/ambiguous_label/{cat}/{fld}', f'{fld} is not in section {cat}; it occurs elsewhere with different values {[(c.section, c.raw) for c in cands]}'))
                continue
            c = cands[0]
            if len({(x.raw, x.unit) for x in cands}) > 1:
                fails.append((f'client/label_twice_in_section/{cat}/{fld}', f'{fld} occurs twice in {cat} with different text'))
                continue
            if c.kind == 'text':
                if str(vu.get('value')).strip() != c.raw.strip():
                    fails.append((f'client/text/{cat}/{fld}', f'client value {vu.get("value")!r}, report text {c.raw!r}'))
                continue
            exp_val = None if c.kind == 'na' else c.number
            if not num_equal(vu.get('value'), exp_val):
                fails.append((f'client/value/{cat}/{fld}', f'client value {vu.get("value")!r}, report prints {c.raw!r}'))
            cu = vu.get('unit')
            ru = c.unit or None
            if cu == 'count' and ru is None:
                cu = None
            if (cu or None) != ru and c.kind != 'na':
                fails.append((f'client/unit/{cat}/{fld}', f'client unit {vu.get("unit")!r}, report prints {c.unit!r} (line value {c.raw})'))
    tables = {t.title: t for t in rep.tables}
    for cname, title in CLIENT_TABLE.items():
        ct = result.get(cname)
        rt = tables.get(title) or tables.get(cname)        # reports of earlier versions use the client's category name as title
        if rt is None:
            if ct is not None and len(ct) > 1:
                fails.append((f'client/table_invented/{cname}', f'client returns {cname} but the report has no table {title}'))
            continue
        if ct is None:
            fails.append((f'client/table_missing/{cname}', f'report has table {title} with {len(rt.rows)} rows; client returns none'))
            continue
        rows = ct[1:]
        if len(rows) != len(rt.rows):
            fails.append((f'client/table_rows/{cname}', f'client has {len(rows)} rows, report prints {len(rt.rows)}'))
            continue
        for ri, (cr, (_ln, rr)) in enumerate(zip(rows, rt.rows)):
            if len(cr) != len(rr):
                fails.append((f'client/table_columns/{cname}', f'row {ri}: client has {len(cr)} cells, report prints {len(rr)} ({rr})'))
                break
            bad = [ci for ci, (a, b) in enumerate(zip(cr, rr)) if not num_equal(a, T.to_number(b))]
            counters['client_table_cells_checked'] += len(rr)
            if bad:
                fails.append((f'client/table_cell/{cname}', f'row {ri} column {bad[0]}: client {cr[bad[0]]!r}, report prints {rr[bad[0]]!r}'))
                break
        if len(ct[0]) != (len(rt.rows[0][1]) if rt.rows else len(ct[0])):
            fails.append((f'client/table_header_width/{cname}', f'client header has {len(ct[0])} names for {len(rt.rows[0][1])} printed columns'))
    shape = [sorted(f'{s}/{l}' for (s, l) in by_section), sorted(tables), [len(t.rows) for t in rep.tables]]
    return fails, counters, shape


def compare_csv(result, csv_text):
    fails = []
    rows = list(csv.reader(io.StringIO(csv_text)))
    if not rows or rows[0] != ['Category', 'Field', 'Year', 'Value', 'Units']:
        return [('csv/header', f'csv header is {rows[:1]}')]
    got = {}
    for r in rows[1:]:
        if len(r) != 5:
            fails.append(('csv/row_width', f'csv row has {len(r)} cells: {r}'))
            continue
        got.setdefault((r[0], r[1].replace('\\,', ','), r[2]), []).append((r[3], r[4]))
    for cat, fields in result.items():
        if cat in SKIP_CATS:
            continue
        if isinstance(fields, dict):
            for fld, vu in fields.items():
                if vu is None:
                    continue
                v = vu['value'] if isinstance(vu, dict) else vu
                u = (vu.get('unit') if isinstance(vu, dict) else '') or ''
                hit = got.get((cat, fld, ''))
                if not hit:
                    fails.append((f'csv/missing/{cat}', f'csv lacks {cat} / {fld}'))
                elif (('' if v is None else str(v)), str(u)) not in [(a, b) for a, b in hit]:
                    fails.append((f'csv/value/{cat}/{fld}', f'csv has {hit}, result has ({v!r}, {u!r})'))
        elif isinstance(fields, list) and len(fields) > 1:
            hdr = fields[0]
            for i in range(1, len(hdr)):
                name = hdr[i].split(' (')[0]
                for row in fields[1:]:
                    hit = got.get((cat, name, str(row[0])))
                    if not hit or ('' if row[i] is None else str(row[i])) not in [a for a, _ in hit]:
                        fails.append((f'csv/table/{cat}', f'csv lacks {cat} / {name} / year {row[0]} = {row[i]!r} (has {hit})'))
                        break
    return fails


def unit_name_table():
    import enum
    from geophires_x import Units as U
    t = {}
    for nm in dir(U):
        c = getattr(U, nm)
        if isinstance(c, type) and issubclass(c, enum.Enum) and issubclass(c, str):
            for mem in c:
                t.setdefault(mem.name, mem.value)
    return t


def compare_json(js, hook_out, hook_units, flags=None):
    """JSON written next to the report vs the pre-print snapshot: same quantities."""
    fails, n = [], 0
    # every computed output quantity of every module that took part in the run has its JSON entry (the report prints sections for exactly these)
    flags = flags or {}
    active = {'reserv', 'wellbores', 'surfaceplant', 'economics'} | ({'addeconomics'} if flags.get('addons') else set()) | ({'sdacgteconomics'} if flags.get('sdacgt') else set())
    for mn in sorted(active):
        missing = sorted(k.split('.', 1)[1] for k in hook_out if k.split('.', 1)[0] == mn and k.split('.', 1)[1] not in js)
        if missing:
            fails.append((f'json/quantities_missing/{mn}', f'JSON lacks {len(missing)} output quantities of {mn} that the run computed, e.g. {missing[:3]}'))
    unit_names = unit_name_table()
    flat = {}
    for k, v in hook_out.items():
        flat.setdefault(k.split('.', 1)[1], []).append((v, hook_units.get(k)))
    for name, rec in js.items():
        if not isinstance(rec, dict) or 'value' not in rec or name not in flat:
            continue
        jv = snap._num(rec['value'])
        if jv is None:
            continue
        ju = rec.get('CurrentUnits')
        ju = ju if isinstance(ju, str) else ''
        ju = unit_names.get(ju, ju)       # the JSON dump names units by their enum member name
        ok_any = False
        for hv, hu in flat[name]:
            try:
                if isinstance(hv, list) != isinstance(jv, list) or (isinstance(hv, list) and len(hv) != len(jv)):
                    continue
                pairs = zip(hv, jv) if isinstance(hv, list) else [(hv, jv)]
                if all(UR.same_quantity((a, hu if hu not in (None, 'None') else ''), (b, ju), 1e-9, 1e-12) for a, b in pairs):
                    ok_any = True
            except UR.Unconvertible:
                if hv == jv:
                    ok_any = True
        n += 1
        if not ok_any:
            fails.append((f'json/{name}', f'JSON {name} = {str(rec["value"])[:60]} {ju!r}, computed {str(flat[name][0][0])[:60]} {flat[name][0][1]!r}'))
    return fails, n


def at_hook(m, payload):
    ec = m.economics
    flags = {'addons': bool(getattr(getattr(ec, 'DoAddOnCalculations', None), 'value', False)),
             'sdacgt': bool(getattr(getattr(ec, 'DoSDACGTCalculations', None), 'value', False))}
    return {'out': snap.outputs(m), 'units': snap.units(m), 'flags': flags}


def post(obs, payload):
    fails, counters, shape = compare_result(obs['result'], obs['report'])
    if obs.get('csv') is not None:
        fails += compare_csv(obs['result'], obs['csv'])
    elif obs.get('csv_exc'):
        fails.append(('csv/raises', f'as_csv() raised {obs["csv_exc"]}'))
    if obs.get('csv') is not None:
        if obs.get('csv_again_exc'):
            fails.append(('csv/second_export_raises', f'a second as_csv() on the same result raised {obs["csv_again_exc"]}'))
        elif obs.get('csv_again') != obs['csv']:
            a, b = obs['csv'].splitlines(), (obs.get('csv_again') or '').splitlines()
            dl = next(((x, y) for x, y in zip(a, b) if x != y), (f'{len(a)} lines', f'{len(b)} lines'))
            fails.append(('csv/second_export_differs', f'a second as_csv() on the same result gives different text: {dl[0]!r} vs {dl[1]!r}'))
        if obs.get('result_after_csv_same') is False:
            fails.append(('csv/export_mutates_result', 'the result object no longer holds what it held before as_csv() was called'))
    if obs.get('json') is not None:
        jf, n = compare_json(obs['json'], obs['hook']['out'], obs['hook']['units'], obs['hook'].get('flags'))
        fails += jf
        counters['json_quantities_checked'] = n
    else:
        fails.append(('json/missing', f'no JSON next to the report ({obs.get("json_exc")})'))
    return {'fails': fails, 'counters': counters, 'state': shape, 'nontrivial': counters['client_fields_checked'] > 30,
            'sample': {'family': payload.get('fam'), 'changes': payload.get('changes'), 'client_fields_checked': counters['client_fields_checked']}}


def stored_task(payload):
    """stored reports: tokeniser vs client, csv, and three hash seeds in fresh interpreters."""
    res = check.new_result()

    def job(paths):
        from geophires_x_client import GeophiresXResult
        out = []
        for p in paths:
            try:
                r = GeophiresXResult(p)
                with open(p) as f:
                    txt = f.read()
                import copy
                before = copy.deepcopy(r.result)
                try:
                    c = r.as_csv()
                except BaseException as e:  # noqa
                    c = None
                if c is not None:       # an export is a read
                    try:
                        again = r.as_csv()
                    except BaseException as e:  # noqa
                        again = f'<raised {type(e).__name__}: {e}>'
                    if again != c or r.result != before:
                        c = {'first': c, 'again_differs': again != c, 'result_mutated': r.result != before}
                out.append((p, before, txt, c))
            except BaseException as e:  # noqa
                out.append((p, None, f'{type(e).__name__}: {e}', None))
        return out
    paths = payload['paths']
    tag = runner.fork_exec(job, paths, timeout=900)
    if tag[0] != 'ok':
        res['infra'].append(f'stored report parsing failed: {tag[1]}')
        return res
    parsed0 = {}
    for p, result, txt, c in tag[1]:
        res['execs'] += 1
        res['steps'] += 1
        name = os.path.basename(p)
        if result is None:
            check.fail(res, f'client/cannot_parse/{name}', f'client cannot parse {name}: {txt}')
            continue
        res['accepted'] += 1
        if isinstance(c, dict):
            if c['again_differs']:
                check.fail(res, 'csv/second_export_differs', f'{name}: a second as_csv() on the same result gives different text (or raises)')
            if c['result_mutated']:
                check.fail(res, 'csv/export_mutates_result', f'{name}: the result object no longer holds what it held before as_csv() was called')
            c = c['first']
        fails, counters, shape = compare_result(result, txt)
        for k, msg in fails:
            check.fail(res, k, f'[{name}] {msg}')
        if c is not None:
            for k, msg in compare_csv(result, c):
                check.fail(res, k, f'[{name}] {msg}')
        for k, v in counters.items():
            check.bump(res, k, v)
        d = check.digest(shape)
        res['states'].append(d)
        res['nontrivial'].append(d)
        parsed0[p] = json.dumps({k: v for k, v in result.items() if k != 'metadata'}, sort_keys=True, default=str)
    # hash seeds
    code = ("import json,sys\nfrom geophires_x_client import GeophiresXResult\nout={}\n"
            "for p in json.loads(sys.argv[1]):\n    r=GeophiresXResult(p).result\n    out[p]=json.dumps({k:v for k,v in r.items() if k!='metadata'},sort_keys=True,default=str)\n"
            "print(json.dumps(out))\n")
    for hs in ('1', '12345'):
        env = dict(os.environ, PYTHONHASHSEED=hs, PYTHONPATH=runner.repo_src())
        p = subprocess.run(['/venv/bin/python', '-c', code, json.dumps(list(parsed0))], capture_output=True, text=True, env=env, timeout=900)
        res['execs'] += 1
        if p.returncode != 0:
            res['infra'].append(f'hash-seed parse failed: {p.stderr[-300:]}')
            continue
        other = json.loads(p.stdout.splitlines()[-1])
        for path, js in parsed0.items():
            if other.get(path) != js:
                a, b = json.loads(js), json.loads(other[path])
                diff = [(c_, f_) for c_ in a if isinstance(a[c_], dict) for f_ in a[c_] if a[c_].get(f_) != (b.get(c_) or {}).get(f_)][:3]
                check.fail(res, f'client/hash_seed_dependent/{os.path.basename(path)}', f'parse under PYTHONHASHSEED={hs} differs from seed 0 at {diff}')
    res['sample'] = {'stored_reports': [os.path.basename(p) for p in paths][:5], 'hash_seeds': [0, 1, 12345]}
    return res


def gen_hash_task(payload):
    """generated reports parsed under three hash seeds."""
    res = check.new_result()
    d = tempfile.mkdtemp(prefix='c10-', dir=runner.scratch_dir())
    paths = []
    for i, pl in enumerate(payload['payloads']):
        def job(_):
            o = sim.simulate(e1.payload_lines(pl), want=('report',))
            return o.get('report'), o['status']
        tag = runner.fork_exec(job, None, timeout=300)
        res['execs'] += 1
        res['steps'] += 1
        if tag[0] == 'ok' and tag[1][1] == 'accepted':
            res['accepted'] += 1
            p = os.path.join(d, f'g{i}.out')
            with open(p, 'w') as f:
                f.write(tag[1][0])
            paths.append(p)
        else:
            res['not_accepted'] += 1
    r2 = stored_task({'paths': paths})
    for k in ('execs', 'accepted', 'steps'):
        res[k] += r2[k]
    res['fails'] += [f for f in r2['fails'] if 'hash_seed' in f['key']]
    res['infra'] += r2['infra']
    res['states'] += r2['states']
    res['nontrivial'] += r2['nontrivial']
    import shutil
    shutil.rmtree(d, ignore_errors=True)
    res['sample'] = {'generated_reports_parsed_under_hash_seeds': len(paths)}
    return res


def task(payload):
    if payload.get('kind') == 'stored':
        return stored_task(payload)
    if payload.get('kind') == 'genhash':
        return gen_hash_task(payload)
    return e1.unary_task(payload, at_hook, post=post, want=('report', 'result', 'json', 'csv'))


def plan(tier, seed):
    P = c09.plan(tier, seed)
    stored = sorted(glob.glob(os.path.join(runner.REPO, 'tests', 'examples', '*.out')) + glob.glob(os.path.join(runner.REPO, 'tests', '*.out'))
                    + glob.glob(os.path.join(runner.REPO, 'tests', 'geophires_x_client_tests', '*.out')))
    stored = [p for p in stored if 'hip' not in os.path.basename(p).lower()]
    for i in range(0, len(stored), 8):
        P.append({'kind': 'stored', 'paths': stored[i:i + 8]})
    gen = [p for i, p in enumerate(c09.plan(tier, seed)) if i % (29 if tier == 'quick' else 7) == 0]
    for i in range(0, len(gen), 10):
        P.append({'kind': 'genhash', 'payloads': gen[i:i + 10]})
    return P


def run(tier, seed, budget=None):
    return e1.run_generic(
        sys.modules[__name__], PID, tier, seed, budget,
        rule=('the report corpus of C09 (every economic model x end-use/plant x reservoir model x shapes x structural deviations x add-ons) generated on the '
              'real pipeline plus every stored report of tests/: every non-empty field of every category of the client result against the independent '
              'tokeniser (exact label in its own section, number, unit, N/A), every profile table row for row and cell for cell, as_csv() re-read, '
              'the JSON next to the report against the pre-print snapshot; stored and a stride of generated reports re-parsed in fresh interpreters '
              'under PYTHONHASHSEED 1 and 12345. Distinct = report shape'),
        assumptions=['JSON-vs-report is decided as JSON-vs-snapshot (C09 ties the snapshot to the report text)',
                     'legacy categories that no current report prints are exercised only through the stored reports'])
