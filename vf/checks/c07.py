"""
C07 — out-of-range and invalid inputs are rejected, never silently altered (E1, read level + client level).

For every configuration family the live ParameterDicts are discovered by constructing the real Model; every float and
integer parameter is then probed with {just below min, min, max, just above max, far out / non-member}:
  outside  -> run through the real client: must raise, message must name the parameter, no report file may exist;
  at bound -> Model() + read_parameters() must complete and the parameter (as a quantity in its preferred unit) must
              equal the bound.
"""
import math
import os
import sys

from vf.core import e1, mv, runner, check
from vf import families as F

PID = 'C07'


def ex(name):
    return os.path.join(runner.REPO, 'tests', 'examples', name)


def file_lines(path):
    out = []
    with open(path, encoding='UTF-8') as f:
        for l in f:
            l = l.rstrip('\n')
            s = l.strip()
            if not s or s.startswith(('#', '--', '*')) or ',' not in s:
                continue
            out.append(l)
    return out


def family_list(tier):
    fams = [
        ('std-mpf-subORC', F.lines(F.base(1, 1, 1, 1))),
        ('std-lhs-industrial', F.lines(F.base(2, 2, 9, 2))),
        ('std-sf-chiller', F.lines(F.base(3, 2, 5, 3))),
        ('std-tdp-heatpump', F.lines(F.base(1, 2, 6, 4))),
        ('std-cyl-district', F.lines(F.override(F.base(2, 2, 7, 4), {'Reservoir Model': '0'}))),
        ('std-upp-singleflash', F.lines(F.override(F.base(1, 1, 3, 4), {'Reservoir Model': '5'}))),
        ('std-tough2-doubleflash', F.lines(F.override(F.base(1, 31, 4, 4), {'Reservoir Model': '6'}))),
        ('std-tdp-superORC-cogen', F.lines(F.base(3, 52, 2, 4))),
        ('addons-sdacgt', file_lines(ex('example1_addons.txt')) + ['Do S-DAC-GT Calculations, True']),
        ('sbt', file_lines(ex('example_SBT_Lo_T.txt'))),
        ('sutra', file_lines(ex('SUTRAExample1.txt'))),
        ('ags-wangju', file_lines(ex('Wanju_Yuan_Closed-Loop_Geothermal_Energy_Recovery.txt'))),
        ('clgs', file_lines(ex('Beckers_et_al_2023_Tabulated_Database_Uloop_water_elec.txt'))),
        ('hip-ra-x', ['Reservoir Temperature, 250.0', 'Rejection Temperature, 60.0', 'Reservoir Porosity, 10.0',
                      'Reservoir Area, 55.0', 'Reservoir Thickness, 0.25', 'Reservoir Life Cycle, 25']),
    ]
    return fams


def _modules(m):
    out = []
    for nm in ('reserv', 'wellbores', 'surfaceplant', 'economics', 'outputs', 'addeconomics', 'addoutputs', 'sdacgteconomics', 'sdacgtoutputs'):
        mod = getattr(m, nm, None)
        if mod is not None and hasattr(mod, 'ParameterDict'):
            out.append((nm, mod))
    return out


def _build(lines, read=True, hip=False):
    import tempfile
    from vf.core import sim
    p = sim.write_input(lines)
    sys.argv = ['', str(p), os.path.join(tempfile.gettempdir(), 'o.out')]
    if hip:
        from hip_ra_x.hip_ra_x import HIP_RA_X
        m = HIP_RA_X(enable_hip_ra_logging_config=False)
        if read:
            m.read_parameters()
        return m, [('hip', m)]
    os.chdir(os.path.join(runner.repo_src(), 'geophires_x'))
    from geophires_x.Model import Model
    m = Model(enable_geophires_logging_config=False)
    if read:
        m.read_parameters()
    return m, _modules(m)


def discover(arg):
    fam_id, lines = arg
    m, mods = _build(lines, read=True, hip=(fam_id == 'hip-ra-x'))
    from geophires_x.Parameter import floatParameter, intParameter
    found = {}
    for nm, mod in mods:
        for key, p in mod.ParameterDict.items():
            if not hasattr(p, 'Name'):
                continue      # output-unit requests (Units:<output>) are stored in the same dictionary
            name = p.Name.strip()
            if isinstance(p, floatParameter):
                rec = {'t': 'float', 'min': float(p.Min), 'max': float(p.Max), 'default': p.DefaultValue,
                       'decl': getattr(p.CurrentUnits, 'value', None) if not isinstance(p.CurrentUnits, str) else p.CurrentUnits}
            elif isinstance(p, intParameter):
                rng = sorted(int(getattr(x, 'int_value', x)) for x in p.AllowableRange)
                if not rng:
                    continue
                d = p.DefaultValue
                rec = {'t': 'int', 'range': rng, 'default': int(getattr(d, 'int_value', d)) if d is not None else None,
                       'option': getattr(p, 'ValuesEnum', None) is not None}
            else:
                continue
            rec['modules'] = [nm]
            if name in found:
                if {k: v for k, v in found[name].items() if k != 'modules'} != {k: v for k, v in rec.items() if k != 'modules'}:
                    found[name].setdefault('conflict', True)
                found[name]['modules'].append(nm)
            else:
                found[name] = rec
    return {'params': found, 'classes': [type(mod).__name__ for _, mod in mods]}


def probes_for(name, rec):
    """list of (value string, 'outside'|'bound', label)"""
    out = []
    if rec['t'] == 'float':
        lo, hi = rec['min'], rec['max']
        span = max(abs(lo), abs(hi), 1.0)
        cand = [(math.nextafter(lo, -math.inf), 'outside', 'just_below_min'), (lo, 'bound', 'min'), (hi, 'bound', 'max'),
                (math.nextafter(hi, math.inf), 'outside', 'just_above_max'),
                (hi + span * 10, 'outside', 'far_above'), (lo - span * 10, 'outside', 'far_below')]
        mid = lo + (hi - lo) * 0.37
        if mid != 0 and math.isfinite(mid):
            cand.append((mid, 'bound', 'interior'))
        dflt = rec['default']
        if dflt is not None and isinstance(dflt, (int, float)) and not (lo <= float(dflt) <= hi) and float(dflt) != -1.0:
            cand.append((float(dflt), 'outside', 'declared_default_outside_range'))   # e.g. an unset DefaultValue of 0.0
        for v, kind, label in cand:
            if not math.isfinite(v):
                continue
            if dflt is not None and float(v) == float(dflt) == -1.0:
                continue        # the documented "not provided" sentinel
            out.append((repr(float(v)), kind, label))
        # the same out-of-range quantity written in another catalogue unit (lengths and pressures: the unit types whose conversion works on
        # the pinned tree) must be rejected like the bare number
        try:
            from vf.oracles import units_ref as UR
            dims = UR.dims(rec.get('decl') or '')
            if dims and dims[0] in ('length', 'pressure') and hi > 0 and math.isfinite(hi):
                decl = UR.norm(rec['decl'])
                alt = next((U for U in UR.LIN[dims[0]] if U != decl and U not in ('mi', 'in', 'kbar')), None)
                if alt:
                    out.append((f'{UR.convert(hi * 1.05, decl, alt):.10g} {alt}', 'outside', 'above_max_in_another_unit'))
        except Exception:  # noqa
            pass
    else:
        rng = rec['range']
        lo, hi = rng[0], rng[-1]
        cand = [(lo - 1, 'outside', 'min_minus_1'), (lo, 'bound', 'min'), (hi, 'bound', 'max'), (hi + 1, 'outside', 'max_plus_1')]
        if len(rng) != hi - lo + 1:
            members = set(rng)
            gaps = [x for x in range(lo, hi) if x not in members]
            cand.append((gaps[0], 'outside', 'non_member'))
            if gaps[-1] != gaps[0]:
                cand.append((gaps[-1], 'outside', 'non_member_high'))
        inner = [x for x in rng[1:-1] if x != rec['default'] and x != 0]
        if inner:
            cand.append((inner[len(inner) // 2], 'bound', 'interior'))
        if rec.get('option') and len(rng) >= 2:
            # an option written as a fraction between two documented members is a non-member (and must not be truncated to one)
            cand.append((rng[0] + 0.5, 'outside', 'non_member_fraction_low'))
            cand.append((rng[-2] + 0.25, 'outside', 'non_member_fraction_high'))
        for v, kind, label in cand:
            if rec['default'] is not None and v == rec['default'] == -1:
                continue
            out.append((str(v), kind, label))
    return out


def probe_job(arg):
    fam_id, lines, name, value, kind = arg
    hip = fam_id == 'hip-ra-x'
    plines = [l for l in lines if l.split(',')[0].strip() != name] + [f'{name}, {value}']
    if kind == 'outside':
        import tempfile
        from vf.core import sim
        if hip:
            from hip_ra_x import HipRaXClient
            from hip_ra import HipRaInputParameters
            p = sim.write_input(plines)
            params = HipRaInputParameters(str(p))
            outp = params.output_file_path
            try:
                HipRaXClient().get_hip_ra_result(params)
                return {'status': 'accepted', 'report': os.path.exists(outp)}
            except BaseException as e:  # noqa
                return {'status': 'rejected', 'msg': str(e), 'report': os.path.exists(outp) and os.path.getsize(outp) > 0}
        o = sim.simulate(plines, want=())
        if o['status'] == 'accepted':
            return {'status': 'accepted', 'report': True}
        return {'status': 'rejected', 'msg': o['exc'], 'report': bool(o.get('report_exists'))}
    # bound: read level
    try:
        m, mods = _build(plines, read=True, hip=hip)
    except BaseException as e:  # noqa
        return {'status': 'rejected', 'msg': f'{type(e).__name__}: {e}'}
    vals = []
    declared = {}     # unit each parameter is declared in (the unit its bounds are stated in), from fresh instances
    for nm, mod in mods:
        try:
            fresh = mod if hip else type(mod)(m)
        except BaseException:  # noqa
            continue
        if hip:
            from hip_ra_x.hip_ra_x import HIP_RA_X
            fresh = HIP_RA_X(enable_hip_ra_logging_config=False)
        for key, p in fresh.ParameterDict.items():
            if hasattr(p, 'Name'):
                declared[(nm, key)] = p.CurrentUnits
    for nm, mod in mods:
        for key, p in mod.ParameterDict.items():
            if not hasattr(p, 'Name') or p.Name.strip() != name:
                continue
            v = p.value
            v = getattr(v, 'int_value', v)
            q = None
            try:
                decl = declared.get((nm, key))
                if decl is not None and p.CurrentUnits is not None and p.CurrentUnits != decl:
                    from geophires_x.Units import convertible_unit
                    q = float(p.quantity().to(convertible_unit(decl)).magnitude)
            except BaseException:  # noqa
                q = None
            vals.append({'module': nm, 'value': float(v) if isinstance(v, (int, float)) else str(v), 'pref': q,
                         'provided': bool(getattr(p, 'Provided', False))})
    return {'status': 'read_ok', 'vals': vals}


# a module that announces (warning) that it ignores a parameter in its configuration is not "silently altering" it
INAPPLICABLE = {('ags-wangju', 'Number of Segments'): 'closed-loop models warn and force a single gradient segment',
                ('clgs', 'Number of Segments'): 'closed-loop models warn and force a single gradient segment'}
RANGE_MARKERS = ('outside of valid range', 'Error: Parameter given')


def task(payload):
    res = check.new_result()
    fam_id, lines = payload['fam_id'], payload['lines']
    if payload.get('basefail'):
        res['execs'] += 1
        check.fail(res, f'family/base_not_accepted/{fam_id}', f'the base input of family {fam_id} (all of its values are inside their documented ranges and it is read without error on the '
                   f'pinned tree) can no longer be read: {payload["basefail"]}')
        return res
    last = None
    held = {}     # name -> list of (label, typed, module, held)
    for name, value, kind, label, ptype in payload['probes']:
        tag = runner.fork_exec(probe_job, (fam_id, lines, name, value, kind), timeout=300)
        res['execs'] += 1
        res['steps'] += 1
        if tag[0] != 'ok':
            res['infra'].append(f'probe failed ({tag[0]}): {tag[1]} {fam_id} {name}={value}')
            continue
        o = tag[1]
        last = (name, value, kind, o.get('status'))
        d = check.digest([fam_id, name, label])
        res['states'].append(d)
        if kind == 'outside':
            res['not_accepted' if o['status'] == 'rejected' else 'accepted'] += 1
            if o['status'] != 'rejected':
                check.fail(res, f'outside_accepted/{name}/{label}', f'[{fam_id}] {name} = {value} ({label}) was accepted and a result produced')
                continue
            res['nontrivial'].append(d)
            if name not in (o.get('msg') or ''):
                check.fail(res, f'error_does_not_name_parameter/{name}', f'[{fam_id}] {name} = {value} rejected with a message that does not name it: {o.get("msg")!r:.300}')
            if o.get('report'):
                check.fail(res, f'report_written_on_rejection/{name}', f'[{fam_id}] {name} = {value} rejected but a report file exists')
        else:
            if o['status'] != 'read_ok':
                res['not_accepted'] += 1
                msg = o.get('msg') or ''
                if any(mk in msg for mk in RANGE_MARKERS):
                    check.fail(res, f'bound_rejected/{name}/{label}', f'[{fam_id}] {name} = {value} (exactly {label}) was rejected by range validation: {msg!r:.300}')
                else:
                    # fails later for reasons unrelated to range validation (missing column, unsupported combination ...)
                    check.note(res, 'bound_unusable_for_other_reasons', f'{fam_id}: {name}={value}: {msg[:90]}')
                continue
            res['accepted'] += 1
            res['nontrivial'].append(d)
            if not o['vals']:
                res['infra'].append(f'parameter {name} vanished from all modules after reading [{fam_id}]')
            for v in o['vals']:
                got = v['pref'] if v['pref'] is not None else v['value']
                held.setdefault(name, []).append((label, float(value), v['module'], got))
    for name, obs in held.items():
        if (fam_id, name) in INAPPLICABLE:
            check.note(res, 'inapplicable_in_configuration', f'{fam_id}: {name}: {INAPPLICABLE[(fam_id, name)]}')
            continue
        by_mod = {}
        for label, typed, module, got in obs:
            by_mod.setdefault(module, []).append((label, typed, got))
        for module, rows in by_mod.items():
            if all(isinstance(g, float) and mv.close(g, t, 1e-12, 0.0) for _, t, g in rows):
                continue
            # a constant rescale on read (unit bookkeeping such as km -> m) is not a clamp: held = k * typed for one k
            # (a typed 0 must be held as 0 and says nothing about k; k needs two distinct non-zero typed values)
            nz = [(t, g) for _, t, g in rows if t != 0]
            zeros_ok = all(isinstance(g, float) and g == 0 for _, t, g in rows if t == 0)
            ks = [g / t for t, g in nz if isinstance(g, float)]
            distinct_typed = len({t for t, _ in nz})
            if zeros_ok and len(ks) == len(nz) and distinct_typed >= 2 and all(mv.close(k, ks[0], 1e-9, 0.0) for k in ks) and ks[0] != 0:
                check.note(res, 'rescaled_on_read', f'{name} x{ks[0]:.6g} ({module})')
                continue
            bad = next((r for r in rows if not (isinstance(r[2], float) and mv.close(r[2], r[1], 1e-12, 0.0))), rows[0])
            check.fail(res, f'bound_altered/{name}/{bad[0]}', f'[{fam_id}] {name}: typed -> held in module {module}: ' +
                       ', '.join(f'{t!r} ({l}) -> {g!r}' for l, t, g in rows))
    res['sample'] = {'family': fam_id, 'last_probe': last}
    return res


def plan(tier, seed):
    runner.preload()
    P = []
    extra = {'families': {}}
    for fam_id, lines in family_list(tier):
        tag = runner.fork_exec(discover, (fam_id, lines), timeout=300)
        if tag[0] != 'ok':
            # every family base is an accepted input on the pinned tree: a base that can no longer be read is reported by the task, not raised here
            P.append({'fam_id': fam_id, 'lines': lines, 'probes': [], 'basefail': f'{tag[1]}'[:300]})
            continue
        params = tag[1]['params']
        probes = []
        for name in sorted(params):
            rec = params[name]
            for value, kind, label in probes_for(name, rec):
                probes.append([name, value, kind, label, rec['t']])
        extra['families'][fam_id] = {'classes': tag[1]['classes'], 'parameters': len(params), 'probes': len(probes)}
        group, cur = [], None
        for pr in probes:
            if cur is not None and pr[0] != cur and len(group) >= 24:
                P.append({'fam_id': fam_id, 'lines': lines, 'probes': group})
                group = []
            group.append(pr)
            cur = pr[0]
        if group:
            P.append({'fam_id': fam_id, 'lines': lines, 'probes': group})
    plan.extra = extra
    return P


def run(tier, seed, budget=None):
    mod = sys.modules[__name__]
    r = e1.run_generic(
        mod, PID, tier, seed, budget,
        rule=('for each of 14 configuration families (standard x each reservoir and surface-plant class, add-ons + S-DAC-GT, SBT, '
              'SUTRA, AGS, CLGS, HIP-RA-X) every float/int parameter of every instantiated module x {just below min, min, max, '
              'just above max, far below, far above | min-1, min, max, max+1, non-member}; values equal to the default '
              '(the documented not-provided sentinel) excluded. Finite and complete per family. Non-trivial = probe decided '
              '(rejected outside / accepted at bound); distinct = (family, parameter, probe label)'),
        assumptions=['list-valued parameters (Gradients, Thicknesses, add-on arrays) are not scalar inputs and are excluded',
                     'boundary probes stop after parameter reading (extreme but legal values need not be physically computable)'])
    return r
