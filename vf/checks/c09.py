"""C09 — the case report states what was computed (E1, unary: report text vs the pre-print snapshot through report_spec)."""
import math
import sys

from vf.core import e1, check, rpt
from vf import families as F
from vf.oracles import report_tok as T, report_spec as S, units_ref as UR
from vf.checks.c01 import ADDON_GAIN

PID = 'C09'
SKIP_SECTIONS = ('CASE REPORT', 'HEADER')
SKIP_TABLES = ()


def at_hook(m, payload):
    return {'Q': S.qsnap(m)}


def compare_number(expected, unit_from, printed_raw, printed_unit, conv):
    """-> (ok, detail, unit_note)"""
    ev = float(expected)
    note = None
    if conv == 'x100':
        ev = ev * 100.0
    elif conv != 'int':
        uf, ut = UR.norm(unit_from), UR.norm(printed_unit)
        if uf != ut:
            try:
                ev = UR.convert(ev, uf, ut)
            except UR.Unconvertible:
                note = f'{unit_from!r} vs printed {printed_unit!r}'
                return None, f'unit {printed_unit!r} is not a unit of the quantity held in {unit_from!r}', note
    ok = rpt.printed_matches(ev, printed_raw)
    return ok, f'expected {ev!r}', note


def post(obs, payload):
    fails, sets, counters = [], {}, {}
    Q = (obs.get('hook') or {}).get('Q')
    if Q is None:
        raise RuntimeError('no snapshot from the hook')
    rep = T.parse(obs['report'])
    E = S.expected_fields(Q)
    seen = set()
    for f in rep.fields:
        if f.section in SKIP_SECTIONS or f.kind == 'text':
            continue
        key = (f.section, f.label)
        exp = E.get(key)
        if exp is None:
            sets.setdefault('unmodelled_labels', []).append(f'{f.section} / {f.label}')
            continue
        seen.add(key)
        counters['fields_checked'] = counters.get('fields_checked', 0) + 1
        if exp.value is None:
            continue
        if exp.conv == 'na_if_nonpositive':
            if exp.value > 0 and f.kind == 'na':
                fails.append((f'field/{f.section}/{f.label}/na', f'report shows N/A, computed value is {exp.value!r}'))
                continue
            if exp.value <= 0:
                if f.kind != 'na':
                    fails.append((f'field/{f.section}/{f.label}/not_na', f'report shows {f.raw}, computed value {exp.value!r} is not positive'))
                continue
        if f.kind == 'na':
            fails.append((f'field/{f.section}/{f.label}/na', f'report shows N/A, computed value is {exp.value!r}'))
            continue
        ok, detail, note = compare_number(exp.value, exp.unit, f.raw, f.unit, exp.conv)
        if ok is None:
            fails.append((f'unit/{f.section}/{f.label}', f'line "{f.label}: {f.raw} {f.unit}": {detail}'))
        elif not ok:
            fails.append((f'field/{f.section}/{f.label}', f'line "{f.label}: {f.raw} {f.unit}" but the computed quantity is {exp.value!r} {exp.unit} ({detail})'))
    # tables
    TE = S.expected_tables(Q)
    for tb in rep.tables:
        if tb.title in SKIP_TABLES:
            continue
        te = TE.get(tb.title)
        if te is None:
            sets.setdefault('unmodelled_tables', []).append(tb.title)
            continue
        counters['tables_checked'] = counters.get('tables_checked', 0) + 1
        rows = [r for _, r in tb.rows]
        if len(rows) != te.n_rows:
            fails.append((f'table/{tb.title}/row_count', f'{len(rows)} rows, expected {te.n_rows} ({te.note})'))
        years = [rpt_num(r[0]) for r in rows]
        if any(b - a != 1 for a, b in zip(years, years[1:])):
            fails.append((f'table/{tb.title}/year_labels', f'year labels {years[:8]} are not consecutive'))
        ncol = len(te.columns)
        bad_cols = [len(r) - 1 for r in rows if len(r) - 1 != ncol]
        if bad_cols:
            fails.append((f'table/{tb.title}/columns', f'rows have {bad_cols[0]} value columns, expected {ncol}'))
            continue
        done = False
        for ri, r in enumerate(rows[:te.n_rows]):
            for ci, col in enumerate(te.columns):
                name, vals, unit = col[0], col[1], col[2]
                if ri >= len(vals):
                    continue
                ev = vals[ri]
                if len(col) > 3 and col[3] and UR.norm(col[3]) != UR.norm(unit):
                    try:
                        ev = UR.convert(ev, unit, col[3])
                    except UR.Unconvertible:
                        pass
                if not rpt.printed_matches(ev, r[ci + 1]):
                    fails.append((f'table/{tb.title}/{name}', f'row {ri} (year label {r[0]}), column "{name}": printed {r[ci + 1]}, computed {ev!r}'))
                    done = True
                    break
            if done:
                break
    nlabels = len(seen)
    shape = sorted(f'{s}/{l}' for s, l in seen)
    return {'fails': fails, 'sets': {**sets, 'labels_checked': [f'{s} / {l}' for s, l in sorted(seen)]}, 'counters': counters,
            'state': [shape, sorted(t.title for t in rep.tables), [len(t.rows) for t in rep.tables]], 'nontrivial': nlabels > 30,
            'sample': {'family': payload.get('fam') or payload.get('tag'), 'changes': payload.get('changes'), 'fields_checked': nlabels, 'tables': [t.title for t in rep.tables]}}


def rpt_num(s):
    try:
        return float(s.replace(',', ''))
    except ValueError:
        return math.nan


def task(payload):
    return e1.unary_task(payload, at_hook, post=post, want=('report',))


STRUCT = [
    {'Maximum Drawdown': '0.05'},
    {'Total Capital Cost': '50', 'Maximum Drawdown': '0.05'},
    {'Total O&M Cost': '3'},
    {'Investment Tax Credit Rate': '0.3', 'One-time Grants Etc': '2'},
    {'Do Carbon Price Calculations': 'True', 'Starting Carbon Credit Value': '0.01', 'Ending Carbon Credit Value': '0.05', 'Carbon Escalation Rate Per Year': '0.01'},
    {'Ramey Production Wellbore Model': '0', 'Production Wellbore Temperature Drop': '5'},
    {'Productivity Index': None, 'Injectivity Index': None, 'Reservoir Impedance': '0.1'},
    {'Number of Segments': '3', 'Gradient 2': '30', 'Gradient 3': '80', 'Thickness 1': '1', 'Thickness 2': '1.5'},
    # values with many decimals: two writers that format the same quantity differently must show
    {'Number of Segments': '3', 'Gradient 1': '61.2345678', 'Gradient 2': '33.3333333', 'Gradient 3': '78.9012345', 'Thickness 1': '1.23456', 'Thickness 2': '0.98765',
     'Reservoir Depth': '3.14159', 'Injection Temperature': '51.23456', 'Production Flow Rate per Well': '41.98765', 'Ambient Temperature': '17.65432'},
    {'Overpressure Percentage': '150', 'Overpressure Depletion Rate': '5', 'Injection Reservoir Depth': '1000', 'Injection Reservoir Inflation Rate': '10',
     'Injection Reservoir Temperature': '90'},
    {'Well Drilling and Completion Capital Cost': '5', 'Injection Well Drilling and Completion Capital Cost': '3', 'Surface Piping Length': '5'},
    {'Number of Production Wells': '200', 'Number of Injection Wells': '200', 'Production Flow Rate per Well': '500'},
    {'Total Capital Cost': '1000', 'Total O&M Cost': '100'},
    {'Total Capital Cost': '5', 'Total O&M Cost': '0.1', 'Starting Electricity Sale Price': '0.3', 'Ending Electricity Sale Price': '0.3',
     'Starting Heat Sale Price': '0.2', 'Ending Heat Sale Price': '0.2', 'Starting Cooling Sale Price': '0.2', 'Ending Cooling Sale Price': '0.2'},
    {'Do S-DAC-GT Calculations': 'True'},
    {'Do S-DAC-GT Calculations': 'True', 'S-DAC-GT CAPEX': '2000', 'S-DAC-GT OPEX': '200', 'S-DAC-GT Electrical Energy': '1000', 'S-DAC-GT Thermal Energy': '2000'},
    # every S-DAC-GT input off its default (an echo line that reads the default instead of the value shows)
    {'Do S-DAC-GT Calculations': 'True', 'WACC': '7.3', 'S-DAC-GT CAPEX': '1777', 'S-DAC-GT OPEX': '83', 'S-DAC-GT Electrical Energy': '1234', 'S-DAC-GT Thermal Energy': '1789',
     'S-DAC-GT Natural Gas Price': '7.7', 'S-DAC-GT CO2 Intensity of Electricity': '0.31', 'S-DAC-GT CO2 Intensity of Natural Gas': '0.23',
     'S-DAC-GT Natural Gas Energy Density': '301.5', 'S-DAC-GT CAPEX Multiplier': '1.3', 'S-DAC-GT OPEX Multiplier': '0.8', 'S-DAC-GT Thermal Energy Multiplier': '1.2',
     'S-DAC-GT CO2 Transportation Cost': '13', 'S-DAC-GT CO2 Storage Cost': '17', 'S-DAC-GT CO2 Percent Energy Devoted To Process': '0.35'},
    {'Production Tax Credit Electricity': '0.04', 'Production Tax Credit Heat': '0.5', 'Production Tax Credit Cooling': '0.5', 'Production Tax Credit Duration': '2'},
    # both extensions in one run (each has its own economics, outputs and report block)
    {**{k: v for k, v in ADDON_GAIN.items()}, 'Do S-DAC-GT Calculations': 'True', 'S-DAC-GT CAPEX': '1400', 'S-DAC-GT OPEX': '130'},
]


EXAMPLES_QUICK = ['example1.txt', 'example2.txt', 'example3.txt', 'example4.txt', 'example5.txt', 'example8.txt', 'example9.txt', 'example10_HP.txt',
                  'example11_AC.txt', 'example12_DH.txt', 'example13.txt', 'example1_addons.txt', 'example1_outputunits.txt', 'example_ITC.txt', 'example_PTC.txt',
                  'example_multiple_gradients.txt', 'example_multiple_gradients-2.txt', 'example_overpressure.txt', 'example_overpressure2.txt', 'S-DAC-GT.txt',
                  'example_SHR-1.txt', 'example_SHR-2.txt', 'SUTRAExample1.txt', 'Wanju_Yuan_Closed-Loop_Geothermal_Energy_Recovery.txt', 'example_SBT_Lo_T.txt']
EXAMPLES_MORE = ['example_SBT_Hi_T.txt', 'Fervo_Norbeck_Latimer_2023.txt', 'Fervo_Project_Cape.txt', 'Fervo_Project_Cape-2.txt', 'Fervo_Project_Cape-3.txt']


def example_payloads(tier):
    import os
    from vf.core import runner
    out = []
    for name in EXAMPLES_QUICK + (EXAMPLES_MORE if tier == 'thorough' else []):
        path = os.path.join(runner.REPO, 'tests', 'examples', name)
        if not os.path.exists(path):
            continue
        with open(path, encoding='UTF-8') as f:
            lines = [l.rstrip('\n') for l in f]
        out.append({'lines': lines, 'tag': 'example:' + name})
        if name == 'SUTRAExample1.txt':     # the only runnable input of the SUTRA writer: a few cheap deviations on it
            for extra in (['Economic Model, 1', 'Fixed Charge Rate, 0.08'], ['Economic Model, 2', 'Discount Rate, 0.11', 'Inflation Rate During Construction, 0.07'],
                          ['Well Drilling and Completion Capital Cost, 4', 'Injection Well Drilling and Completion Capital Cost, 2.5', 'Circulation Pump Efficiency, 0.6']):
                out.append({'lines': lines + extra, 'tag': 'example:' + name + '+' + extra[0]})
    return out


def plan(tier, seed):
    P = example_payloads(tier)
    if tier == 'quick':
        shapes_all, extra_shapes = [(5, 3, 2)], [(2, 1, 1), (3, 4, 14), (30, 1, 1), (6, 2, 3)]
    else:
        shapes_all, extra_shapes = [(5, 3, 2), (2, 1, 1), (3, 4, 14), (30, 1, 1)], [(6, 2, 3), (100, 1, 2), (1, 2, 1), (12, 12, 1)]
    for em in F.ECON_MODELS:
        for pair in F.PAIRS:
            for r in F.RES_MODELS:
                for s in shapes_all:
                    if r in (1, 2) and s[0] * s[1] > 90:
                        continue
                    fam = {'econ': em, 'enduse': pair[0], 'plant': pair[1], 'res': r, 'shape': list(s)}
                    P.append({'fam': fam, 'changes': {}, 'base': True})
            r = 1 + (em + pair[0] + pair[1]) % 4
            for s in extra_shapes:
                if r in (1, 2) and s[0] * s[1] > 90:
                    r = 4
                fam = {'econ': em, 'enduse': pair[0], 'plant': pair[1], 'res': r, 'shape': list(s)}
                P.append({'fam': fam, 'changes': {}})
            fam = {'econ': em, 'enduse': pair[0], 'plant': pair[1], 'res': 4 if em != 2 else 3, 'shape': [5, 3, 2]}
            for st in STRUCT:
                if tier == 'quick' and (em + len(st) + pair[1]) % 2 and pair[1] not in (1, 9):
                    continue
                P.append({'fam': fam, 'changes': dict(st)})
            fam1 = dict(fam)
            fam1['shape'] = [5, 3, 1]
            P.append({'fam': fam1, 'changes': {k: v for k, v in ADDON_GAIN.items() if k != 'Construction Years'}})
            # ... and add-ons profitable enough to pay back within the lifetime (the add-on payback line then carries a non-trivial figure)
            P.append({'fam': fam1, 'changes': {**{k: v for k, v in ADDON_GAIN.items() if k != 'Construction Years'}, 'AddOn Profit Gained 2': '6.5'}})
            fam2 = dict(fam)
            fam2['shape'] = [4, 2, 2]
            P.append({'fam': fam2, 'changes': {k: v for k, v in ADDON_GAIN.items() if k != 'Construction Years'}, 'tag': 'addon-cy2'})
    # fracture-geometry and reservoir-volume branches of the reservoir block (models 1 and 2 print them)
    for r in (1, 2):
        fam = {'econ': 1, 'enduse': 1 if r == 1 else 2, 'plant': 1 if r == 1 else 9, 'res': r, 'shape': [3, 2, 1]}
        for ch in ({'Fracture Shape': '1', 'Fracture Area': '500000'}, {'Fracture Shape': '2', 'Fracture Height': '700'}, {'Fracture Shape': '4', 'Fracture Height': '600', 'Fracture Width': '450'},
                   {'Reservoir Volume Option': '1', 'Fracture Separation': '45', 'Number of Fractures': '12', 'Reservoir Volume': None},
                   {'Reservoir Volume Option': '2', 'Fracture Separation': '45', 'Reservoir Volume': '2e8', 'Number of Fractures': None},
                   {'Reservoir Volume Option': '3', 'Reservoir Volume': '2e8', 'Number of Fractures': '12'},
                   {'Reservoir Volume Option': '4', 'Reservoir Volume': '2e8'}):
            P.append({'fam': fam, 'changes': dict(ch)})
    # closed-loop (SBT) runs print through the standard writer with their own well-field lines
    for fam in F.sbt_grid(shapes=((6, 2, 1),) if tier == 'quick' else ((6, 2, 1), (3, 4, 2))):
        P.append({'fam': fam, 'changes': {}})
        for st in STRUCT[:5] + STRUCT[12:14]:
            P.append({'fam': fam, 'changes': dict(st)})
    return P


def run(tier, seed, budget=None):
    return e1.run_generic(
        sys.modules[__name__], PID, tier, seed, budget,
        rule=('every branch combination of the writer reached through inputs: 3 economic models x 32 end-use/plant pairs x 4 reservoir models, shapes '
              'incl. lifetimes {2,3,5,6,30} (thorough: 1,12,100), construction years {1,2,3,14}, steps/yr {1,2,3,4} (thorough 12), and 16 structural deviations '
              '(redrilling, fixed totals, ITC+grant, carbon, Ramey off, impedance, 3 segments, overpressure+split reservoir, per-well costs+piping, '
              '200 wells x 500 kg/s, 1000 MUSD, fast payback, S-DAC-GT (2), PTC) plus add-ons with 1 and 2 construction years. Every numeric field the tokeniser '
              'finds is compared with report_spec at printed precision and unit; every table row/column against the snapshot series. Non-trivial = more '
              'than 30 fields checked; distinct = report shape (labels, tables, row counts). Unmodelled labels are listed, not claimed'),
        assumptions=[
                     'lines that show a percent magnitude of a fraction are encoded as such (x100), their unit label is not judged',
                     'the total O&M line is held to mean annual O&M plus average purchased electricity for pumping and heat pump (pinned definition)'])
