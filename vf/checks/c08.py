"""C08 — a run is a pure function of its input; runs do not contaminate each other (E2: explicit-state search over request histories)."""
import json
import os
import subprocess
import sys
import tempfile
import time

from vf.core import e1, check, runner, sim
from vf.engines import histx
from vf import families as F
from vf.checks.c01 import ADDON_GAIN

PID = 'C08'


def req_lines(kind):
    if kind == 'okE':
        return F.lines(F.base(1, 1, 1, 4, (3, 2, 1)))
    if kind == 'okE2':     # okE with one digit of the gradient changed: same number of bytes, other results
        out = []
        for l in req_lines('okE'):
            if l.startswith('Gradient 1,'):
                l = l[:-1] + ('7' if l[-1] != '7' else '3')
            out.append(l)
        return out
    if kind == 'okH':
        return F.lines(F.base(2, 2, 9, 3, (3, 2, 1)))
    if kind == 'okA':
        return F.lines(F.override(F.base(3, 1, 2, 4, (3, 2, 1)), {k: v for k, v in ADDON_GAIN.items()}))
    if kind == 'okD':
        return F.lines(F.base(2, 2, 7, 4, (3, 2, 1)))
    if kind == 'okU':
        return F.lines(F.override(F.base(1, 1, 1, 4, (3, 2, 1)), {'Reservoir Depth': '9842.52 ft', 'Injection Temperature': '122 degF', 'Production Flow Rate per Well': '55 kg/sec'}))
    if kind == 'okX':
        return F.lines(F.base(1, 1, 1, 4, (3, 2, 1))) + ['Units:Bottom-hole temperature, degF', 'Units:Net Electricity Production, kW']
    if kind == 'okD2':   # district heating with daily-resolution demand (thorough)
        return F.lines(F.override(F.base(2, 2, 7, 4, (3, 2, 1)), {'District Heating Demand Data Time Resolution': '2'}))
    if kind == 'okDef':    # almost everything left to the documented defaults
        return ['End-Use Option, 2', 'Reservoir Model, 4', 'Plant Lifetime, 3', 'Time steps per year, 2', 'Print Output to Console, 0']
    if kind == 'okOdd':    # many non-default values, incl. the list-valued gradient/thickness parameters and several segments
        return F.lines(F.override(F.base(2, 2, 9, 4, (3, 2, 1)), {
            'Number of Segments': '3', 'Gradient 1': '71', 'Gradient 2': '33', 'Gradient 3': '95', 'Thickness 1': '1.2', 'Thickness 2': '0.9', 'Reservoir Depth': '2.7',
            'Maximum Temperature': '310', 'Surface Temperature': '9', 'Ambient Temperature': '4', 'Number of Production Wells': '4', 'Number of Injection Wells': '1',
            'Production Well Diameter': '0.2413 m', 'Injection Well Diameter': '16.51 cm',     # lengths written with a unit, declared in inch (okU: feet for a depth declared in km) 'Production Flow Rate per Well': '33', 'Injection Temperature': '61', 'Water Loss Fraction': '0.07',
            'Reservoir Heat Capacity': '1111', 'Reservoir Density': '2555', 'Reservoir Thermal Conductivity': '3.3', 'Well Drilling Cost Correlation': '3',
            'Discount Rate': '0.083', 'Fixed Internal Rate': '9.1', 'Starting Heat Sale Price': '0.041', 'Ending Heat Sale Price': '0.077', 'Utilization Factor': '0.71'}))
    if kind == 'okCap2':   # two gradient segments with the maximum-temperature cap reached in the last one (depth reduced): sensitive to
        # per-segment scratch data left behind by a run with more segments (okOdd has three)
        return F.lines(F.override(F.base(2, 2, 9, 4, (3, 2, 1)), {'Number of Segments': '2', 'Gradient 1': '60', 'Gradient 2': '90', 'Thickness 1': '1',
                                                                'Reservoir Depth': '5', 'Maximum Temperature': '200'}))
    wide = {'okChill': (2, 2, 5, 2), 'okHP': (1, 2, 6, 4), 'okCHP42': (3, 42, 2, 3), 'okMPF': (1, 1, 1, 1), 'okLHS': (2, 52, 4, 2), 'okFlash': (1, 1, 3, 4)}
    if kind in wide:       # thorough only: one request per module family not yet in the menu (plant classes, reservoir classes, economic models)
        e, u, pl, r = wide[kind]
        return F.lines(F.base(e, u, pl, r, (3, 2, 1)))
    if kind == 'okDH2':    # district heating with the demand computed from heating degree days
        return F.lines(F.override(F.base(2, 2, 7, 4, (3, 2, 1)), {'District Heating Demand Option': '2', 'Temperature File Name': F.demand_csv(), 'Temperature Data Column Number': '2',
                                                                'Number of Housing Units': '12000', 'Constant Anchor Demand': '3', 'US Census Division': '5'}))
    if kind == 'okSDAC':
        return F.lines(F.override(F.base(1, 1, 2, 4, (3, 2, 1)), {'Do S-DAC-GT Calculations': 'True'}))
    if kind in ('okSUTRA', 'okAGS'):
        from vf.checks import c07
        return c07.file_lines(c07.ex('SUTRAExample1.txt' if kind == 'okSUTRA' else 'Wanju_Yuan_Closed-Loop_Geothermal_Energy_Recovery.txt'))
    if kind in ('ovrA', 'ovrB'):      # reference content of the override requests: the base lines (ovrB: two dropped), then the dictionary's entries
        return [l for l in OVR_BASE if kind == 'ovrA' or l.split(',')[0].strip() not in OVR_DROP] + [f'{k}, {v}' for k, v in OVR_PARAMS.items()]
    if kind == 'okS':      # closed loop (SBT): other module classes, own numerical kernels
        return F.lines(F.sbt_base(3, 1, 2, (4, 2, 1), 5))
    if kind == 'failX':    # aborts through a bare sys.exit() inside the core (user-provided temperature profile that does not exist)
        return F.lines(F.override(F.base(2, 2, 9, 4, (3, 2, 1)), {'Reservoir Model': '5', 'Reservoir Output File Name': 'no-such-profile.txt'}))
    if kind == 'failR':
        return F.lines(F.override(F.base(1, 1, 1, 4, (3, 2, 1)), {'Gradient 1': '9999'}))
    if kind == 'failC':
        return F.lines(F.override(F.base(1, 1, 5, 4, (3, 2, 1)), {}))
    if kind == 'failP':
        return F.lines(F.base(1, 31, 5, 4, (3, 2, 1)))
    if kind == 'hip':
        return ['Reservoir Temperature, 250.0', 'Rejection Temperature, 60.0', 'Reservoir Porosity, 10.0', 'Reservoir Area, 55.0',
                'Reservoir Thickness, 0.25', 'Reservoir Life Cycle, 25']
    raise KeyError(kind)


EVENTS_QUICK = ['okE/c', 'okH/c', 'okA/c', 'okD/c', 'okU/c', 'okX/c', 'okDef/c', 'okOdd/c', 'okCap2/c', 'okS/c', 'hip', 'failR/c', 'failC/c', 'failP/c', 'failX/c', 'rewrite/c',
                'rewrite:failX/c', 'rewrite@same/c', 'rewrite@older/c', 'rewrite+obj/c', 'ovrA/c', 'ovrB/c', 'okE/n',
                # the last plain file asked for once more, unchanged, through the non-caching client (the same file really runs twice in the process);
                # a rewrite that keeps size and modification time (okE2 differs from okE in one digit)
                'again/n', 'rewrite:okE2@same/c', 'rewrite:okE2@same/n']
EVENTS_L3 = ['okOdd/c', 'okDef/c', 'okCap2/c', 'okU/c', 'failX/c', 'rewrite/c', 'rewrite:failX/c', 'ovrA/c', 'ovrB/c']
OVR_BASE = F.lines(F.base(1, 1, 1, 4, (3, 2, 1)))
OVR_DROP = ('Production Flow Rate per Well', 'Injection Temperature')
OVR_PARAMS = {'Gradient 1': '47', 'Utilization Factor': '0.8'}
WIDE_KINDS = ['okChill', 'okHP', 'okCHP42', 'okMPF', 'okLHS', 'okFlash', 'okDH2', 'okSDAC', 'okSUTRA', 'okAGS']
EVENTS_THOROUGH = EVENTS_QUICK + ['okD2/c', 'failR/n', 'okH/n', 'rewrite:failR/c', 'okDef/n', 'rewrite:failX@same/c', 'rewrite@same/n']
EVENTS_WIDE = EVENTS_THOROUGH + [k + '/c' for k in WIDE_KINDS]      # thorough: all histories of length <= 2 over this menu


def strip(text):
    return sim.strip_clock(text) if text else text


def replay_history(arg):
    """child: one history in ONE process. Returns per-event records."""
    history, start = arg['history'], arg['start']
    from geophires_x_client import GeophiresXClient, GeophiresInputParameters
    tmp = tempfile.gettempdir()
    caller = os.path.join(tmp, 'caller-' + start)
    os.makedirs(caller, exist_ok=True)
    os.chdir(caller)
    marks = histx.pristine_marks()
    p0, m0 = histx.process_state(marks, caller)
    fd0 = histx.fd_count()
    clients = {'c': GeophiresXClient(enable_caching=True), 'n': GeophiresXClient(enable_caching=False)}
    last = {'path': None, 'kind': None}
    n_files = {'i': 0}
    recs = []
    for ev in history:
        kind, _, mode = ev.partition('/')
        rec = {'event': ev}
        pre_cwd, pre_argv_id, pre_argv = os.getcwd(), id(sys.argv), list(sys.argv)
        content_kind = kind
        try:
            if kind == 'hip':
                from hip_ra_x import HipRaXClient
                from hip_ra import HipRaInputParameters
                n_files['i'] += 1
                p = sim.write_input(req_lines('hip'), name=f'hip{n_files["i"]}.txt')
                params = HipRaInputParameters(str(p))
                HipRaXClient().get_hip_ra_result(params)
                with open(params.output_file_path) as f:
                    rec['text'] = f.read()
            else:
                if kind == 'again':
                    if last['path'] is None:
                        n_files['i'] += 1
                        last['path'], last['kind'] = str(sim.write_input(req_lines('okU'), name=f'r{n_files["i"]}.txt')), 'okU'
                        last['params'] = GeophiresInputParameters(from_file_path=last['path'])
                        clients['n'].get_geophires_result(last['params'])
                    path, content_kind = last['path'], last['kind']
                elif kind.startswith('rewrite'):
                    # overwrite the file behind the last requested path with other content and ask the same client again
                    # rewrite[:<content>][@same|@older]: the modification time the rewritten file ends up with is an environment answer
                    # (cp -p, rsync -t, archive extraction and os.replace of a file prepared earlier all give a time that is not newer)
                    reuse_object = kind.startswith('rewrite+obj')       # ... and hand the client the very request object it was given before
                    wanted, _, when = kind.partition(':')[2].partition('@') if ':' in kind else ('',) + kind.partition('@')[1:]
                    content_kind = wanted or ('okH' if last['kind'] != 'okH' else 'okE')
                    if last['path'] is None:
                        n_files['i'] += 1
                        last['path'] = str(sim.write_input(req_lines('okE'), name=f'r{n_files["i"]}.txt'))
                        last['params'] = GeophiresInputParameters(from_file_path=last['path'])
                        clients['c'].get_geophires_result(last['params'])
                    st_before = os.stat(last['path'])
                    with open(last['path'], 'w', encoding='UTF-8') as f:
                        f.write('\n'.join(req_lines(content_kind)) + '\n')
                    if when == 'same':
                        os.utime(last['path'], ns=(st_before.st_atime_ns, st_before.st_mtime_ns))
                    elif when == 'older':
                        os.utime(last['path'], ns=(st_before.st_atime_ns, st_before.st_mtime_ns - 10 * 10 ** 9))
                    path = last['path']
                    mode = mode if mode in ('c', 'n') else 'c'
                elif kind in ('ovrA', 'ovrB'):
                    # the client's "base file + override dictionary" request, always for the same base path and the same dictionary: ovrA writes
                    # the full base there, ovrB a version with two lines dropped (the dropped parameters then take their defaults)
                    path = os.path.join(tempfile.gettempdir(), 'override-base.txt')
                    with open(path, 'w', encoding='UTF-8') as f:
                        f.write('\n'.join(OVR_BASE if kind == 'ovrA' else [l for l in OVR_BASE if l.split(',')[0].strip() not in OVR_DROP]) + '\n')
                else:
                    n_files['i'] += 1
                    path = str(sim.write_input(req_lines(kind), name=f'r{n_files["i"]}.txt'))
                rec['content_kind'] = content_kind
                params = GeophiresInputParameters(dict(OVR_PARAMS), from_file_path=path) if kind in ('ovrA', 'ovrB') else GeophiresInputParameters(from_file_path=path)
                if kind.startswith('rewrite') and reuse_object and last.get('params') is not None:
                    params = last['params']
                plain_file_request = (mode == 'c' or kind.startswith('rewrite')) and kind not in ('ovrA', 'ovrB', 'again')
                last['params'] = params if plain_file_request else last.get('params')
                if plain_file_request:      # (path, content, request object) of the last plain-file request move together; override requests have their own fixed path
                    last['path'], last['kind'] = path, content_kind
                result = clients[mode].get_geophires_result(params)
                # the returned object's own (parsed) content is what the caller is given; its report file may since have been
                # overwritten by a later request for the same path, so the file is only read when it was just produced
                body = {k: v for k, v in result.result.items() if k not in ('metadata', 'Simulation Metadata')}
                rec['text'] = json.dumps(body, sort_keys=True, default=str, indent=0)
                try:    # the JSON the run wrote next to its report (read only by the reference runs: one request per process)
                    with open(result.json_output_file_path) as jf:
                        rec['json_file'] = json.dumps(json.load(jf), sort_keys=True, default=str, indent=0)
                except (OSError, ValueError) as e:
                    rec['json_file'] = f'unreadable: {type(e).__name__}'
            rec['outcome'] = 'ok'
        except BaseException as e:  # noqa
            rec['outcome'] = 'raised'
            rec['exc'] = f'{type(e).__name__}: {str(e)[:160]}'
        rec['content_kind'] = content_kind
        rec['cwd_restored'] = os.getcwd() == pre_cwd
        rec['cwd_after'] = os.getcwd()
        rec['argv_same_object'] = id(sys.argv) == pre_argv_id
        rec['argv_same_contents'] = [str(a) for a in sys.argv] == [str(a) for a in pre_argv]
        rec['argv_after'] = [str(a) for a in sys.argv][:3]
        st, memo = histx.process_state(marks, caller)
        rec['state'] = st
        rec['memo'] = memo
        rec['fds'] = histx.fd_count() - fd0
        recs.append(rec)
        # the harness restores cwd so that later events are judged on their own (the violation is already recorded)
        if not rec['cwd_restored']:
            os.chdir(pre_cwd)
    return {'records': recs, 'pristine': p0}


# interpreters the isolated references are computed in: (PYTHONHASHSEED, starting directory). Six seeds: an order dependence with two outcomes
# escapes five alternative seeds with probability 1/32
REF_ENVS = (('0', 'A'), ('1', 'B'), ('12345', 'A'), ('2', 'B'), ('3', 'A'), ('4', 'B'))


def compute_references(kinds):
    """each request alone, in pristine interpreters with six hash seeds and two starting directories."""
    refs = {}
    script = os.path.join(os.path.dirname(os.path.abspath(__file__)), 'c08_ref.py')
    outs = []
    for seed_, start in REF_ENVS:
        env = dict(os.environ, PYTHONHASHSEED=seed_, VF_REF_START=start, VF_REF_KINDS=json.dumps(kinds))
        p = subprocess.run(['/venv/bin/python', '-m', 'vf.checks.c08_ref'], capture_output=True, text=True, env=env, cwd=check.VERIF, timeout=1800)
        if p.returncode != 0:
            raise RuntimeError(f'reference run failed (hash seed {seed_}): {p.stderr[-800:]}')
        outs.append(json.loads(p.stdout.splitlines()[-1]))
    return outs


def judge(history, out, refs, res):
    pristine = out['pristine']
    ctx_h = ' -> '.join(history)
    for i, rec in enumerate(out['records']):
        ev = rec['event']
        kind = rec['content_kind']
        ctx = f'event {i + 1} ({ev}) of history [{ctx_h}]'
        ref = refs[0][kind]
        failing = ref['outcome'] != 'ok'
        # (ii) cwd and argv
        if not rec['cwd_restored']:
            check.fail(res, 'cwd_not_restored/' + ('after_failure' if rec['outcome'] != 'ok' else 'after_success'),
                       f'{ctx}: working directory left at {rec["cwd_after"]}')
        if not (rec['argv_same_object'] and rec['argv_same_contents']):
            check.fail(res, 'argv_not_restored/' + ('after_failure' if rec['outcome'] != 'ok' else 'after_success'),
                       f'{ctx}: sys.argv left as {rec["argv_after"]} (same object: {rec["argv_same_object"]})')
        # (i) result equals the reference for the content the file has at call time
        if failing:
            if rec['outcome'] == 'ok':
                check.fail(res, f'failing_request_succeeds/{kind}' + ('/after_rewrite' if ev.startswith('rewrite') else ''),
                           f'{ctx}: request that fails in isolation returned a result')
        else:
            if rec['outcome'] != 'ok':
                check.fail(res, f'request_fails_in_history/{kind}', f'{ctx}: succeeds in isolation but raised {rec.get("exc")}')
            elif rec['text'] != ref['text']:
                a, b = ref['text'].splitlines(), rec['text'].splitlines()
                dl = next(((x, y) for x, y in zip(a, b) if x != y), ('<length>', f'{len(a)} vs {len(b)}'))
                k = 'stale_or_foreign_result' if ev.startswith('rewrite') else ('second_run_of_the_same_file_differs' if ev.startswith('again') else 'result_depends_on_history')
                check.fail(res, f'{k}/{ev}', f'{ctx}: result differs from the isolated run of the same content: {dl[0]!r} vs {dl[1]!r}')
        # (iv) process-state vector (memo tables excluded) equals the pristine one
        st = rec['state']
        for key in ('numpy_attrs', 'root_handlers', 'env', 'caller_dir_files', 'stdout_is_original'):
            if st[key] != pristine[key]:
                check.fail(res, f'process_state_leak/{key}/{ev}', f'{ctx}: {key} is {st[key]!r}, pristine {pristine[key]!r}')
        for name in st.get('lib_data_changed') or []:
            check.note(res, 'library_data_changed_by_requests', f'{name} (after {ev})')      # listed, not judged: see histx.library_data
    return check.digest([{k: v for k, v in out['records'][-1]['state'].items()}, out['records'][-1]['cwd_restored'], out['records'][-1]['argv_same_contents']])


def task(payload):
    res = check.new_result()
    if payload.get('kind') == 'refs':
        for dd in payload['disagreements']:
            what = {'json': 'json_file', 'text': 'result', 'outcome': 'outcome'}[dd['part']]
            check.fail(res, f'depends_on_hash_seed_or_directory/{what}/{dd["kind"]}', f'request {dd["kind"]} alone in a pristine interpreter: {what} under {dd["env"]} differs from '
                       f'PYTHONHASHSEED=0, directory A: {dd["diff"][0]!r} vs {dd["diff"][1]!r}')
        res['execs'] += len(REF_ENVS) * payload['n_kinds']
        res['accepted'] += 1
        d = check.digest(['refs', payload['n_kinds']])
        res['states'].append(d)
        res['nontrivial'].append(d)
        res['sample'] = {'isolated_runs_across_interpreters': {'requests': payload['n_kinds'], 'hash_seeds': [int(a) for a, _ in REF_ENVS], 'directories': ['A', 'B']}}
        return res
    refs = payload['refs']
    for h in payload['histories']:
        tag = runner.fork_exec(replay_history, {'history': h, 'start': payload.get('start', 'A')}, timeout=900)
        res['execs'] += 1
        res['steps'] += len(h)
        if tag[0] != 'ok':
            res['infra'].append(f'history replay failed: {tag[1]} {tag[2] if len(tag) > 2 else ""} history={h}')
            continue
        res['accepted'] += 1
        nf = len(res['fails'])
        d = judge(h, tag[1], refs, res)
        res['states'].append(d)
        res.setdefault('pairs', []).append((h, d, len(res['fails']) == nf))
        if len(h) > 1:
            res['nontrivial'].append(check.digest(h))
    res['sample'] = {'history': payload['histories'][0], 'start_dir': payload.get('start', 'A')}
    return res


def plan(tier, seed):
    events = EVENTS_QUICK if tier == 'quick' else EVENTS_THOROUGH
    kinds = sorted({e.partition('/')[0] for e in (EVENTS_WIDE if tier == 'thorough' else events) if not e.startswith(('rewrite', 'again'))} | {'okE', 'okE2', 'okU', 'okH', 'failX', 'failR'})
    outs = compute_references(kinds)
    # (iii) references agree across hash seeds and starting directories
    plan.ref_disagreements = []
    ref_details = []
    ref_env = [f'PYTHONHASHSEED={a}, directory {b}' for a, b in REF_ENVS]
    for k in kinds:
        for oi, o in enumerate(outs[1:], 1):
            if o[k] != outs[0][k]:
                plan.ref_disagreements.append(k)
                for part in ('outcome', 'text', 'json'):
                    a, b = outs[0][k].get(part), o[k].get(part)
                    if a != b:
                        al, bl = str(a).splitlines(), str(b).splitlines()
                        dl = next(((x, y) for x, y in zip(al, bl) if x != y), (f'{len(al)} lines', f'{len(bl)} lines'))
                        ref_details.append({'kind': k, 'part': part, 'env': ref_env[oi], 'diff': [dl[0][:120], dl[1][:120]]})
    refs = outs
    H = list(histx.histories(events, 2))
    H += [h for h in histx.histories(EVENTS_L3, 3) if len(h) == 3]
    if tier == 'thorough':
        H = list(histx.histories(events, 3))
        have = {tuple(h) for h in H}
        H += [h for h in histx.histories(EVENTS_WIDE, 2) if tuple(h) not in have]
    # the isolated runs themselves, compared across interpreters: result, and the JSON file next to the report, under six hash seeds / two directories
    P = [{'kind': 'refs', 'disagreements': ref_details, 'n_kinds': len(kinds)}]
    B = 6
    slim = [{k: {'outcome': v['outcome'], 'text': v.get('text')} for k, v in outs[0].items()}]
    for i in range(0, len(H), B):
        P.append({'histories': H[i:i + B], 'refs': slim, 'start': 'A' if (i // B) % 2 == 0 else 'B'})
    return P


def run_thorough(seed, budget=None):
    """all histories of length <= 3 unpruned, then depth 4 with process-state pruning (DESIGN 3.3): a history is extended only
    if its process-state digest has not been seen; the pruning assumption is tested on the unpruned levels."""
    import time
    mod = sys.modules[__name__]
    col = check.Collector(PID, 'thorough', seed, module=mod.__name__)
    budget = budget or e1.DEFAULT_BUDGET['thorough']
    deadline = time.time() + budget
    P = plan('thorough', seed)
    col.planned = len(P)
    digest_of = {}
    ok_of = {}
    for idx, tagged in runner.run_tasks(task, P, deadline=deadline):
        if tagged[0] == 'ok':
            for h, d, ok in tagged[1].pop('pairs', []):
                digest_of[tuple(h)] = d
                ok_of[tuple(h)] = ok
        col.add(idx, P[idx], tagged)
    if col.tasks < len(P):
        col.capped = True
    # soundness of the canonical state: equal digests at depth <= 2 must have equal one-step futures (all of which were executed)
    events = EVENTS_THOROUGH
    groups = {}
    for h, d in digest_of.items():
        if len(h) <= 2:
            groups.setdefault(d, []).append(h)
    collisions = 0
    for d, hs in groups.items():
        for e in events:
            futures = {(digest_of.get(h + (e,)), ok_of.get(h + (e,))) for h in hs if h + (e,) in digest_of}
            collisions += max(0, len([h for h in hs if h + (e,) in digest_of]) - 1)
            if len(futures) > 1:
                col.infra.append(f'canonicalisation unsound: histories with equal process-state digest {d} have different futures under {e}: {sorted(map(str, hs))[:4]}')
    # depth 4: one representative per distinct digest reached at depth 3
    reps = {}
    for h, d in sorted(digest_of.items()):
        if len(h) == 3:
            reps.setdefault(d, h)
    P4 = []
    refs_slim = P[0]['refs'] if P else None
    for d, h in reps.items():
        H4 = [list(h) + [e] for e in events]
        for i in range(0, len(H4), 5):
            P4.append({'histories': H4[i:i + 5], 'refs': refs_slim, 'start': 'A'})
    col.planned += len(P4)
    base = len(P)
    for idx, tagged in runner.run_tasks(task, P4, deadline=deadline):
        if tagged[0] == 'ok':
            tagged[1].pop('pairs', None)
        col.add(base + idx, P4[idx], tagged)
    if col.tasks < col.planned:
        col.capped = True
    col.rule = ('explicit-state search over request histories, each replayed in one real process: ALL histories of length <= 3 over 30 events (unpruned), '
                'all of length <= 2 over 40 events (one more request per plant / reservoir / economics family, SUTRA, AGS, S-DAC-GT), then depth 4 with process-state pruning: one representative per distinct process-state digest reached at depth 3, extended by every event. The pruning '
                'assumption (equal digest => equal futures) is checked on every digest collision at depth <= 2 against the executed depth-3 extensions')
    col.assumptions = ['functools memo tables and the pint registry are pure caches and excluded from the state comparison',
                       'depth-4 coverage is complete only under the checked assumption that the process-state vector captures every module-level mutable the pipeline reads']
    col.extra.update({'unpruned_histories': len(digest_of), 'distinct_digests_depth3': len(reps), 'pruned_frontier_depth4': len(P4) and sum(len(p['histories']) for p in P4),
                      'digest_collisions_examined': collisions,
                      'reference_disagreements_across_hash_seeds_or_dirs': getattr(plan, 'ref_disagreements', None)})
    return col.finish(task)


def run(tier, seed, budget=None):
    if tier == 'thorough':
        return run_thorough(seed, budget)
    mod = sys.modules[__name__]
    r = e1.run_generic(
        mod, PID, tier, seed, budget,
        rule=('explicit-state search over request histories, each replayed in one real process: quick = ALL histories of length <= 2 over 23 events '
              '(10 successful GEOPHIRES requests incl. add-ons, district heating, input units, output-unit directives, an all-defaults request, a many-non-defaults '
              'request, a two-segment request capped in its last segment and a closed-loop (SBT) request; HIP-RA-X; 4 failing requests that fail while reading / calculating / printing / through a bare sys.exit(); rewrite-the-file-with-other-content '
              '(succeeding or aborting; modification time newer, unchanged or older; a new request object or the one used before; also a rewrite that keeps size and modification time)-and-ask-again; the last plain file asked for again unchanged through the non-caching client; the base-file-plus-override-dictionary request of the client on a base that is rewritten with lines dropped; a non-caching client) plus ALL histories of length 3 over 9 events; thorough = all histories of length <= 3 '
              'over 30 events + pruned depth 4; starting directory alternates. References: each request alone '
              'in pristine interpreters under PYTHONHASHSEED 0/1/2/3/4/12345 and two directories (result and JSON file judged). States = digest of the process-state vector after the history'),
        assumptions=['functools memo tables are pure caches and excluded from the state comparison (reported in evidence)',
                     'result equality is on the complete parsed content of the returned result object (all categories and profile tables; metadata with paths/clock excluded) and on the full report text for HIP-RA-X'],
        extra={'reference_disagreements_across_hash_seeds_or_dirs': getattr(plan, 'ref_disagreements', None)})
    return r
