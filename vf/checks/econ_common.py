"""Monitors on the live model for the economic identities (shared by C01, C03, C04, C11, C16, C18)."""
import math
import numpy as np

from vf.core import mv
from vf.core.mv import V, A, AdapterError
from vf.oracles import econ_ref as R

RT = 1e-9


def kind(m):
    """(econ model int, end-use int, plant class name)"""
    ec, sp = m.economics, m.surfaceplant
    return mv.enum_int(V(ec, 'econmodel')), mv.enum_int(V(sp, 'enduse_option')), type(sp).__name__


def _safe(fn, *a, **k):
    try:
        return fn(*a, **k)
    except (ZeroDivisionError, OverflowError, ValueError):
        return math.nan


RATE_INPUTS = {'discountrate': 'Discount Rate', 'FCR': 'Fixed Charge Rate', 'inflrateconstruction': 'Inflation Rate During Construction',
               'FIB': 'Fraction of Investment in Bonds', 'BIR': 'Inflated Bond Interest Rate', 'EIR': 'Inflated Equity Interest Rate',
               'RINFL': 'Inflation Rate', 'CTR': 'Combined Income Tax Rate', 'GTR': 'Gross Revenue Tax Rate', 'RITC': 'Investment Tax Credit Rate',
               'PTR': 'Property Tax Rate', 'electricity_cost_to_buy': 'Electricity Rate'}
# (not the cogeneration cost-allocation ratio: the run computes it unless the input provides it, and a provided value equal to the declared
#  default counts as not provided - the live value is the one the definitions refer to)


def expected_lc(m, inp=None):
    """dict product -> expected levelized cost in the reported unit, from the run's own reported figures.
    inp: the input as written (name -> text). A rate the input states as a bare number is taken from there, not from the live parameter object:
    a run that overwrites one of its own rate inputs while calculating (and then discounts consistently with the overwritten value) must show."""
    ec, sp = m.economics, m.surfaceplant
    em, eu, cls = kind(m)

    def rate(obj, attr):
        txt = (inp or {}).get(RATE_INPUTS[attr]) if attr in RATE_INPUTS else None
        if txt is not None:
            try:
                return float(str(txt).strip())
            except ValueError:
                pass
        return float(V(obj, attr))
    L = int(V(sp, 'plant_lifetime'))
    C = float(V(ec, 'CCap'))
    O = float(V(ec, 'Coam'))
    ic = rate(ec, 'inflrateconstruction')
    ratio = rate(ec, 'CAPEX_heat_electricity_plant_ratio')
    price_buy = rate(sp, 'electricity_cost_to_buy')
    pump = [x * price_buy / 1e6 for x in A(sp, 'PumpingkWh')]
    zero = [0.0] * L
    out = {}

    def lc(Cx, Ox, X, Xavg, E):
        E = [float(e) for e in E]
        if em == 1:
            return _safe(R.lc_fcr, rate(ec, 'FCR'), ic, Cx, Ox, Xavg, E)
        if em == 2:
            return _safe(R.lc_std, rate(ec, 'discountrate'), ic, Cx, Ox, X, E)
        if em == 3:
            p = {k: rate(ec, k) for k in ('FIB', 'BIR', 'EIR', 'RINFL', 'CTR', 'GTR', 'RITC', 'PTR')}
            p['ic'] = ic
            return _safe(R.lc_bicycle, p, Cx, Ox, X, E)
        raise AdapterError(f'economic model {em} not modelled')

    avg_pump = float(V(ec, 'averageannualpumpingcosts'))     # as reported by the run (cogeneration branch, see below)
    if eu == 2:
        # direct use: the "other annual cost" of the fixed-charge-rate definition is derived here from the run's own yearly pumping energy and
        # the electricity rate, not read back from the attribute the formula used (a run that forgets to compute it must show)
        avg_pump = R.mean(pump)
    if eu == 1:
        out['LCOE'] = lc(C, O, zero, 0.0, A(sp, 'NetkWhProduced'))
    elif eu == 2:
        if cls == 'SurfacePlantAbsorptionChiller':
            out['LCOC'] = lc(C, O, pump, avg_pump, A(sp, 'cooling_kWh_Produced')) * R.MMBTU
        elif cls == 'SurfacePlantHeatPump':
            hp = [x * price_buy / 1e6 for x in A(sp, 'heat_pump_electricity_kwh_used')]
            X = [a + b for a, b in zip(pump, hp)]
            out['LCOH'] = lc(C, O, X, avg_pump + R.mean(hp), A(sp, 'HeatkWhProduced')) * R.MMBTU
        elif cls == 'SurfacePlantDistrictHeating':
            ng = [float(x) for x in np.atleast_1d(V(ec, 'annualngcost'))]
            X = [a + b for a, b in zip(pump, ng)]
            E = [float(V(sp, 'annual_heating_demand')) * 1e6] * L
            # the peaking-fuel average is taken as reported: the run keeps two versions of the yearly series (with and without the boiler
            # efficiency) and the fixed-charge-rate branch uses the average of the first, which is not the series it reports
            out['LCOH'] = lc(C, O, X, avg_pump + float(V(ec, 'averageannualngcost')), E) * R.MMBTU
        else:
            out['LCOH'] = lc(C, O, pump, avg_pump, A(sp, 'HeatkWhProduced')) * R.MMBTU
    else:
        out['LCOE'] = lc(C * ratio, O * ratio, zero, 0.0, A(sp, 'NetkWhProduced'))
        # heat share; the per-model treatment of pumping cost for cogeneration heat is the pinned asymmetry (DESIGN C01)
        Xh = pump if em == 2 else zero
        out['LCOH'] = lc(C * (1 - ratio), O * (1 - ratio), Xh, avg_pump, A(sp, 'HeatkWhProduced')) * R.MMBTU
    return out


REPORT_LABEL = {'LCOE': 'Electricity breakeven price', 'LCOH': 'Direct-Use heat breakeven price (LCOH)',
                'LCOC': 'Direct-Use Cooling Breakeven Price (LCOC)'}


def mon_c01(m, payload):
    fails = []
    ec, sp = m.economics, m.surfaceplant
    em, eu, cls = kind(m)
    exp = expected_lc(m, input_dict(payload))
    got = {}
    nontrivial = True
    for prod, e in exp.items():
        g = float(V(ec, prod))
        got[prod] = g
        if not mv.close(g, e, RT, 1e-12):
            fails.append((f'lc/model{em}/{prod}/{"cogen" if eu > 2 else cls}',
                          f'{prod}: reported {g!r}, formula on reported costs/energy gives {e!r} (econ model {em}, end-use {eu}, {cls})'))
        if not (math.isfinite(g) and g != 0):
            nontrivial = False
    series = A(sp, 'NetkWhProduced') if 'LCOE' in exp else (A(sp, 'cooling_kWh_Produced') if 'LCOC' in exp else A(sp, 'HeatkWhProduced'))
    if np.ptp(series) < 1e-9 * max(1.0, float(np.max(np.abs(series)))):
        nontrivial = False
    addon = getattr(m, 'addeconomics', None) is not None and bool(V(ec, 'DoAddOnCalculations'))
    state = [em, eu, cls, type(m.reserv).__name__, int(V(sp, 'plant_lifetime')), addon,
             {k: (round(v, 9) if math.isfinite(v) else str(v)) for k, v in got.items()}]
    return {'fails': fails, 'state': state, 'nontrivial': nontrivial, 'exp': exp,
            'sample': {'family': payload.get('fam'), 'changes': payload.get('changes'), 'reported': got}}


def post_c01(obs, payload):
    """report lines at printed precision (runs in the child after the run)."""
    from vf.core import rpt
    fails = []
    h = obs.get('hook') or {}
    exp = h.get('exp') or {}
    rep = obs.get('report', '')
    for prod, e in exp.items():
        hit = rpt.find_line(rep, REPORT_LABEL[prod])
        if hit is None:
            fails.append((f'report/missing/{prod}', f'report has no line "{REPORT_LABEL[prod]}"'))
            continue
        if not rpt.printed_matches(e, hit[0]):
            fails.append((f'report/{prod}', f'report prints {hit[0]} {hit[1]} for {prod}, formula gives {e!r}'))
    if 'ADD-ON' in rep.upper() or 'ADDON' in rep.upper():
        for prod, lab in (('LCOE', 'Adjusted Project LCOE (after incentives, grants, AddOns,etc)'),
                          ('LCOH', 'Adjusted Project LCOH (after incentives, grants, AddOns,etc)')):
            hit = rpt.find_line(rep, lab)
            if hit is not None and prod in exp and not rpt.printed_matches(exp[prod], hit[0]):
                fails.append((f'report/adjusted/{prod}', f'report prints adjusted {prod} {hit[0]}, formula gives {exp[prod]!r}'))
    return {'fails': fails}


# ----------------------------------------------------------------------------------------------------- C03
def input_dict(payload):
    from vf import families as F
    if 'fam' in payload:
        return F.override(F.fam_base(payload['fam']), payload.get('changes', {}))
    d = {}
    for l in payload.get('lines', []):
        parts = [x.strip() for x in l.split(',')]
        if len(parts) >= 2:
            d[parts[0]] = parts[1]
    return d


def _f(inp, name):
    v = inp.get(name)
    return None if v is None else float(str(v).split()[0])


def mon_c03(m, payload):
    fails = []
    ec, sp, wb, rs = m.economics, m.surfaceplant, m.wellbores, m.reserv
    inp = input_dict(payload)
    em, eu, cls = kind(m)
    L = int(V(sp, 'plant_lifetime'))
    nprod, ninj = float(V(wb, 'nprod')), float(V(wb, 'ninj'))
    # well counts as the input states them (no well-bore model rewrites them): a run that overwrites a count while calculating stays
    # self-consistent, so the live value cannot be the reference
    for nm, live in (('Number of Production Wells', nprod), ('Number of Injection Wells', ninj)):
        w = _f(inp, nm)
        if w is not None and w != live:
            fails.append((f'wells/count_altered/{nm}', f'input says {nm} = {w:g}, the run costs {live:g}'))
    Cwell, Cstim, Cplant, Cgath, Cexpl = (float(V(ec, k)) for k in ('Cwell', 'Cstim', 'Cplant', 'Cgath', 'Cexpl'))
    Cpiping, Cdh = float(V(ec, 'Cpiping')), float(V(ec, 'dhdistrictcost'))
    CCap, Coam = float(V(ec, 'CCap')), float(V(ec, 'Coam'))
    user_total = _f(inp, 'Total Capital Cost')
    if user_total is not None:
        base = user_total
    else:
        base = Cexpl + Cwell + Cstim + Cgath + Cplant + Cpiping + Cdh
    itc_rate = _f(inp, 'Investment Tax Credit Rate')
    ritc_val = float(V(ec, 'RITCValue'))
    exp_itc = (itc_rate or 0.0) * base
    if not mv.close(ritc_val, exp_itc, RT, 1e-12):
        fails.append(('capex/itc_value', f'investment tax credit value {ritc_val!r}, expected rate*cost = {exp_itc!r}'))
    fee, inc, grant = (_f(inp, k) or 0.0 for k in ('One-time Flat License Fees Etc', 'Other Incentives', 'One-time Grants Etc'))
    exp_ccap = base - exp_itc + fee - inc - grant
    if not mv.close(CCap, exp_ccap, RT, 1e-12):
        fails.append(('capex/total' + ('/user_total' if user_total is not None else ''),
                      f'total capital cost {CCap!r}, expected {exp_ccap!r} = base {base!r} - ITC {exp_itc!r} + fees {fee} - incentives {inc} - grants {grant}'))
    # component overrides: exactly the user's figure
    for pname, attr, cond in (('Reservoir Stimulation Capital Cost', 'Cstim', True),
                              ('Surface Plant Capital Cost', 'Cplant', True),
                              ('Field Gathering System Capital Cost', 'Cgath', True),
                              ('Exploration Capital Cost', 'Cexpl', user_total is None)):
        u = _f(inp, pname)
        if u is not None and cond and not mv.close(float(V(ec, attr)), u, 1e-12, 0):
            fails.append((f'override/{attr}', f'{pname} given as {u}, model uses {float(V(ec, attr))!r}'))
    # wells
    c_prod, c_inj = float(V(ec, 'cost_one_production_well')), float(V(ec, 'cost_one_injection_well'))
    lateral = float(V(ec, 'cost_lateral_section')) if mv.has(ec, 'cost_lateral_section') else 0.0
    u_prod, u_inj = _f(inp, 'Well Drilling and Completion Capital Cost'), _f(inp, 'Injection Well Drilling and Completion Capital Cost')
    if u_prod is not None:
        e_prod, e_inj = u_prod, (u_inj if u_inj is not None else u_prod)
        if not mv.close(c_prod, e_prod, 1e-12, 0) or not mv.close(c_inj, e_inj, 1e-12, 0):
            fails.append(('override/per_well', f'per-well costs given ({u_prod}, {u_inj}); model uses ({c_prod!r}, {c_inj!r})'))
        exp_cwell = e_prod * nprod + e_inj * ninj
        if not mv.close(Cwell, exp_cwell, RT, 1e-12):
            fails.append(('wells/user_fixed_sum', f'wellfield cost {Cwell!r}, expected per-well costs x wells = {exp_cwell!r}'))
    elif type(ec).__name__ == 'SBTEconomics':
        # closed-loop (SBT) well field: vertical sections from the published curve at the vertical section length, laterals per section
        # (half price when uncased), the two inclined legs to the junction (EavorLoop only); 5 % indirect costs are inside each part here
        corr = int(_f(inp, 'Well Drilling Cost Correlation') or 10)
        per_m_v = _f(inp, 'All-in Vertical Drilling Costs') or 1000.0
        per_m_l = _f(inp, 'All-in Nonvertical Drilling Costs')
        adj_p = _f(inp, 'Well Drilling and Completion Capital Cost Adjustment Factor')
        adj_i = _f(inp, 'Injection Well Drilling and Completion Capital Cost Adjustment Factor')
        if adj_i is None:
            adj_i = adj_p if adj_p is not None else 1.0
        if adj_p is None:
            adj_p = 1.0
        vert_m = float(wb.vertical_section_length.quantity().to('m').magnitude)
        e_prod = 1.05 * R.well_cost_MUSD(corr, vert_m, per_m_v, adj_p)
        if not mv.close(c_prod, e_prod, RT, 1e-12):
            fails.append((f'sbt/wells/curve/{corr}/production', f'vertical production section cost {c_prod!r}, 1.05 x curve {corr} at {vert_m} m x {adj_p} gives {e_prod!r}'))
        e_inj = e_prod if ninj > 0 else 0.0
        if not mv.close(c_inj, e_inj, RT, 1e-12):
            fails.append(('sbt/wells/injection', f'vertical injection section cost {c_inj!r}, expected the production figure {e_inj!r} (0 without injection wells)'))
        junction = float(V(ec, 'cost_to_junction_section')) if mv.has(ec, 'cost_to_junction_section') else 0.0
        config = getattr(wb.Configuration.value, 'name', str(wb.Configuration.value))
        if 'Number of Multilateral Sections' in inp and config != 'VERTICAL':
            nsec = float(V(wb, 'numnonverticalsections'))
            lat_m = float(V(wb, 'tot_lateral_m'))
            casing = 1.0 if bool(V(wb, 'NonverticalsCased')) else 0.5
            sec_m = lat_m / nsec
            if per_m_l is not None:
                e_lat = casing * nsec * per_m_l * sec_m * 1e-6
            else:
                e_lat = casing * nsec * R.well_cost_MUSD(corr, sec_m, float(V(ec, 'Nonvertical_drilling_cost_per_m')), 1.0)
            e_lat *= 1.05 * adj_p
        else:
            e_lat = 0.0
        if not mv.close(lateral, e_lat, RT, 1e-12):
            fails.append(('sbt/wells/laterals', f'lateral sections cost {lateral!r}, expected {e_lat!r} ({config}, {inp.get("Number of Multilateral Sections")} sections)'))
        if config == 'EAVORLOOP' and 'Number of Multilateral Sections' in inp:
            e_j = 1.05 * R.well_cost_MUSD(corr, float(V(wb, 'tot_to_junction_m')), per_m_v, adj_i)
        else:
            e_j = 0.0
        if not mv.close(junction, e_j, RT, 1e-12):
            fails.append(('sbt/wells/junction', f'junction legs cost {junction!r}, expected {e_j!r} ({config})'))
        exp_cwell = c_prod * nprod + c_inj * ninj + lateral + junction
        if not mv.close(Cwell, exp_cwell, RT, 1e-12):
            fails.append(('sbt/wells/sum', f'wellfield cost {Cwell!r}, expected vertical sections x wells + laterals + junction legs = {exp_cwell!r}'))
    else:
        if 'Number of Multilateral Sections' in inp and mv.has(wb, 'Configuration'):
            # laterals on the standard economics: N sections of the given length each (none for the vertical geometry), per section either the
            # user's per-metre figure or the published curve at the section length, half price when uncased - computed here from the inputs
            config = getattr(wb.Configuration.value, 'name', str(wb.Configuration.value))
            nsec = float(V(wb, 'numnonverticalsections'))
            sec_m = float(wb.Nonvertical_length.quantity().to('m').magnitude)
            casing = 1.0 if bool(V(wb, 'NonverticalsCased')) else 0.5
            corr_l = int(_f(inp, 'Well Drilling Cost Correlation') or 10)
            per_m_l = _f(inp, 'All-in Nonvertical Drilling Costs')
            adj_l = _f(inp, 'Well Drilling and Completion Capital Cost Adjustment Factor')
            adj_l = 1.0 if adj_l is None else adj_l
            if config == 'VERTICAL':
                e_lat = 0.0
            elif config in ('ULOOP', 'COAXIAL', 'L'):
                if per_m_l is not None:
                    e_lat = casing * nsec * per_m_l * sec_m * 1e-6 * adj_l
                else:
                    e_lat = casing * nsec * R.well_cost_MUSD(corr_l, sec_m, float(V(ec, 'Nonvertical_drilling_cost_per_m')), 1.0) * adj_l
            else:
                e_lat = None
            if e_lat is not None and not mv.close(lateral, e_lat, RT, 1e-12):
                fails.append((f'wells/laterals/{config}', f'lateral sections cost {lateral!r}, expected {e_lat!r} = {nsec:g} sections x {sec_m:g} m ({config}, casing factor {casing}, '
                              f'per-metre {per_m_l}, correlation {corr_l})'))
        ci = c_inj if ninj > 0 else 0.0
        exp_cwell = 1.05 * (c_prod * nprod + ci * ninj + lateral)
        if not mv.close(Cwell, exp_cwell, RT, 1e-12):
            fails.append(('wells/correlated_sum', f'wellfield cost {Cwell!r}, expected 1.05*(per-well x wells + laterals) = {exp_cwell!r}'))
        # per-well cost against own copy of the published curves
        corr = int(_f(inp, 'Well Drilling Cost Correlation') or 10)
        per_m = _f(inp, 'All-in Vertical Drilling Costs') or 1000.0
        adj_p = _f(inp, 'Well Drilling and Completion Capital Cost Adjustment Factor')
        adj_i = _f(inp, 'Injection Well Drilling and Completion Capital Cost Adjustment Factor')
        if adj_i is None:
            adj_i = adj_p if adj_p is not None else 1.0
        if adj_p is None:
            adj_p = 1.0
        depth_m = float(rs.depth.quantity().to('m').magnitude)
        e_prod = R.well_cost_MUSD(corr, depth_m, per_m, adj_p)
        if not mv.close(c_prod, e_prod, RT, 1e-12):
            fails.append((f'wells/curve/{corr}/production', f'production well cost {c_prod!r}, curve {corr} at {depth_m} m x {adj_p} gives {e_prod!r}'))
        if ninj > 0 and 'Injection Reservoir Depth' not in inp:
            e_inj = R.well_cost_MUSD(corr, depth_m, per_m, adj_i)
            if not mv.close(c_inj, e_inj, RT, 1e-12):
                fails.append((f'wells/curve/{corr}/injection', f'injection well cost {c_inj!r}, curve {corr} at {depth_m} m x {adj_i} gives {e_inj!r}'))
    # O&M
    u_oam = _f(inp, 'Total O&M Cost')
    if u_oam is not None:
        obase = u_oam
    else:
        obase = (float(V(ec, 'Coamwell')) + float(V(ec, 'Coamplant')) + float(V(ec, 'Coamwater')) + float(V(ec, 'chilleropex'))
                 + float(V(ec, 'dhdistrictoandmcost')))
        for pname, attr in (('Wellfield O&M Cost', 'Coamwell'), ('Surface Plant O&M Cost', 'Coamplant'), ('Water Cost', 'Coamwater')):
            u = _f(inp, pname)
            if u is not None and not mv.close(float(V(ec, attr)), u, 1e-12, 0):
                fails.append((f'override/{attr}', f'{pname} given as {u}, model uses {float(V(ec, attr))!r}'))
    redrill = int(V(wb, 'redrill'))
    afee, relief = (_f(inp, k) or 0.0 for k in ('Annual License Fees Etc', 'Tax Relief Per Year'))
    exp_coam = obase + (Cwell + Cstim) * redrill / L + afee - relief
    if not mv.close(Coam, exp_coam, RT, 1e-12):
        fails.append(('opex/total' + ('/user_total' if u_oam is not None else ''),
                      f'total O&M {Coam!r}, expected {exp_coam!r} = base {obase!r} + redrilling {(Cwell + Cstim) * redrill / L!r} + fees {afee} - relief {relief}'))
    state = [em, eu, cls, sorted(k for k in inp if 'Cost' in k or 'Fees' in k or 'Grant' in k or 'Incentive' in k or 'Credit' in k),
             round(CCap, 9), round(Coam, 9), redrill]
    nontrivial = CCap != 0 and Coam != 0
    return {'fails': fails, 'state': state, 'nontrivial': nontrivial,
            'sample': {'family': payload.get('fam'), 'changes': payload.get('changes'), 'CCap': CCap, 'Coam': Coam}}


# ----------------------------------------------------------------------------------------------------- C04
def _metrics_consistent(fails, prefix, cf, cum, rate_pct, excel, npv_r, irr_pct, vir, moic, capex, opex, L, payback=None):
    scale = max(1.0, max(abs(x) for x in cf))
    e_npv = R.npv(rate_pct / 100.0, cf, excel)
    if not mv.close(npv_r, e_npv, 1e-9, 1e-9 * scale):
        fails.append((f'{prefix}/npv', f'reported NPV {npv_r!r}; series discounted at {rate_pct}% gives {e_npv!r}'))
    if irr_pct != 0 and math.isfinite(irr_pct):
        # "zeroes the NPV" is judged relative to the size of the discounted terms: at strongly negative rates the terms reach 1e37 and an
        # absolute residual says nothing (thorough C04, district heating, IRR -94 %: residual 5e20 on terms of 1e38 is a root to 1e-18)
        try:
            resid = R.npv(irr_pct / 100.0, cf, False)
            mag = math.fsum(abs(c) / abs(1 + irr_pct / 100.0) ** t for t, c in enumerate(cf))
        except (ZeroDivisionError, OverflowError):
            resid, mag = math.inf, 1.0
        if not abs(resid) <= 1e-7 * max(mag, scale):
            fails.append((f'{prefix}/irr', f'reported IRR {irr_pct!r} % does not zero the NPV of the reported series (residual {resid!r})'))
    if vir is not None:
        e_vir = 1.0 + e_npv / capex if capex != 0 else math.nan
        if capex != 0 and not mv.close(vir, e_vir, 1e-9, 1e-9):
            fails.append((f'{prefix}/vir', f'reported VIR {vir!r}, expected 1 + NPV/CAPEX = {e_vir!r}'))
    if moic is not None and (capex + opex * L) != 0:
        e_moic = cum[-1] / (capex + opex * L)
        if not mv.close(moic, e_moic, 1e-9, 1e-9):
            fails.append((f'{prefix}/moic', f'reported MOIC {moic!r}, expected {e_moic!r}'))
    if payback is not None:
        crossings = [j for j in range(1, len(cum)) if cum[j - 1] <= 0 < cum[j]]
        if payback > 0:
            if not any(j - 1e-9 <= payback <= j + 1 + 1e-9 for j in crossings):
                fails.append((f'{prefix}/payback', f'reported payback {payback!r} is not within a year where cumulative cash flow turns positive (crossing years {crossings})'))
        elif crossings:
            fails.append((f'{prefix}/payback_missing', f'cumulative cash flow turns positive in year(s) {crossings} but no payback period is reported'))
    return e_npv


def mon_c04(m, payload):
    fails = []
    inp = input_dict(payload)
    ec, sp = m.economics, m.surfaceplant
    em, eu, cls = kind(m)
    L = int(V(sp, 'plant_lifetime'))
    cy = int(V(sp, 'construction_years'))
    T = cy + L
    CCap, Coam = float(V(ec, 'CCap')), float(V(ec, 'Coam'))
    cf = [float(x) for x in V(ec, 'TotalRevenue')]
    cum = [float(x) for x in V(ec, 'TotalCummRevenue')]
    if len(cf) != T or len(cum) != T:
        fails.append(('cashflow/length', f'cash-flow series have {len(cf)}/{len(cum)} entries, expected construction+lifetime = {T}'))
        return {'fails': fails, 'state': ['len'], 'nontrivial': False}
    prices = {k: [float(x) for x in V(ec, k)] for k in ('ElecPrice', 'HeatPrice', 'CoolingPrice', 'CarbonPrice')}
    for k, p in prices.items():
        if len(p) != T:
            fails.append((f'price/length/{k}', f'{k} has {len(p)} entries, expected {T}'))
            return {'fails': fails, 'state': ['len'], 'nontrivial': False}
    net = A(sp, 'NetkWhProduced')
    heat = A(sp, 'HeatkWhProduced')
    cool = A(sp, 'cooling_kWh_Produced') if mv.has(sp, 'cooling_kWh_Produced') else np.zeros(L)
    sold = []
    if eu == 1:
        sold = [('ElecRevenue', net, 'ElecPrice')]
    elif eu == 2 and cls == 'SurfacePlantAbsorptionChiller':
        sold = [('CoolingRevenue', cool, 'CoolingPrice')]
    elif eu == 2:
        sold = [('HeatRevenue', heat, 'HeatPrice')]
    else:
        sold = [('ElecRevenue', net, 'ElecPrice'), ('HeatRevenue', heat, 'HeatPrice')]
    exp = [0.0] * T
    for y in range(cy):
        exp[y] = -CCap / cy
    for name, E, pk in sold:
        rev = [float(x) for x in V(ec, name)]
        for y in range(T):
            e = 0.0 if y < cy else float(E[y - cy]) * prices[pk][y] / 1e6
            if not mv.close(rev[y], e, 1e-9, 1e-12):
                fails.append((f'revenue/{name}', f'{name}[{y}] = {rev[y]!r}, expected energy x price = {e!r}'))
                break
            if y >= cy:
                exp[y] += e
    carbon_on = bool(V(ec, 'DoCarbonCalculations'))
    if carbon_on:
        gi, ni = float(V(ec, 'GridCO2Intensity')), float(V(ec, 'NaturalGasCO2Intensity'))
        crev = [float(x) for x in V(ec, 'CarbonRevenue')]
        for y in range(cy, T):
            el = float(net[y - cy]) if eu != 2 else 0.0
            ht = float(heat[y - cy]) if eu != 1 else 0.0
            e = (el * gi + ht * ni) * prices['CarbonPrice'][y] / 1e6
            if not mv.close(crev[y], e, 1e-9, 1e-12):
                fails.append(('revenue/carbon', f'CarbonRevenue[{y}] = {crev[y]!r}, expected {e!r}'))
                break
            exp[y] += e
    for y in range(cy, T):
        exp[y] -= Coam
    i = mv.first_mismatch(cf, exp, 1e-9, 1e-9)
    if i is not None:
        where = 'construction' if i < cy else 'operation'
        fails.append((f'cashflow/{where}', f'cash flow year {i}: reported {cf[i]!r}, expected {exp[i]!r} (cy={cy}, L={L})'))
    i = mv.first_mismatch(cum, R.running_sum(cf), 1e-9, 1e-9)
    if i is not None:
        fails.append(('cashflow/cumulative', f'cumulative year {i}: reported {cum[i]!r}, running sum {R.running_sum(cf)[i]!r}'))
    def fir(obj):
        # the rate the input states (bare number: percent; a Discount Rate alone defines it, as a fraction), else the live parameter
        for nm, k in (('Fixed Internal Rate', 1.0), ('Discount Rate', 100.0)):
            try:
                if inp.get(nm) is not None:
                    return float(str(inp[nm]).strip()) * k
            except ValueError:
                pass
        return float(V(obj, 'FixedInternalRate'))
    rate = fir(ec)
    excel = bool(V(ec, 'discount_initial_year_cashflow'))
    pb = float(V(ec, 'ProjectPaybackPeriod'))
    _metrics_consistent(fails, 'project', cf, cum, rate, excel, float(V(ec, 'ProjectNPV')), float(V(ec, 'ProjectIRR')),
                        float(V(ec, 'ProjectVIR')), float(V(ec, 'ProjectMOIC')), CCap, Coam, L, pb)
    crossing = any(cum[j - 1] <= 0 < cum[j] for j in range(1, T))
    addon = bool(V(ec, 'DoAddOnCalculations')) and getattr(m, 'addeconomics', None) is not None
    if addon:
        ae = m.addeconomics
        acap = float(V(ae, 'AddOnCAPEXTotal'))
        aopex = float(V(ae, 'AddOnOPEXTotalPerYear'))
        ael, aht, aprofit = (float(V(ae, k)) for k in ('AddOnElecGainedTotalPerYear', 'AddOnHeatGainedTotalPerYear', 'AddOnProfitGainedTotalPerYear'))
        pcf = [float(x) for x in V(ae, 'ProjectCashFlow')]
        pcum = [float(x) for x in V(ae, 'ProjectCummCashFlow')]
        if len(pcf) != T:
            fails.append(('addon/length', f'add-on project cash flow has {len(pcf)} entries, expected {T}'))
        else:
            pexp = [0.0] * T
            for y in range(cy):
                pexp[y] = -(CCap + acap) / cy
            for y in range(cy, T):
                k = y - cy
                a_el = ael if eu != 2 else 0.0
                a_ht = aht if eu != 1 else 0.0
                p_el = float(net[k]) if eu != 2 else 0.0
                p_ht = float(heat[k]) if eu != 1 else 0.0
                arev = a_el * prices['ElecPrice'][y] / 1e6 + a_ht * prices['HeatPrice'][y] / 1e6 + aprofit - aopex
                pexp[y] = arev + (p_el * prices['ElecPrice'][y] + p_ht * prices['HeatPrice'][y]) / 1e6 - Coam
            i = mv.first_mismatch(pcf, pexp, 1e-9, 1e-9)
            if i is not None:
                # with S-DAC-GT in the same run the key is its own: that extension lowers the plant's yearly energy after the add-on block
                # has computed its project cash flow from the earlier, higher series (a recorded finding), and must not hide other mismatches
                sdac = bool(V(ec, 'DoSDACGTCalculations')) if mv.has(ec, 'DoSDACGTCalculations') else False
                fails.append(('addon+sdacgt/cashflow' if sdac else 'addon/cashflow', f'project-with-add-ons cash flow year {i}: reported {pcf[i]!r}, expected {pexp[i]!r}'
                              + (' (S-DAC-GT in the same run)' if sdac else '')))
            i = mv.first_mismatch(pcum, R.running_sum(pcf), 1e-9, 1e-9)
            if i is not None:
                fails.append(('addon/cumulative', f'add-on cumulative year {i}: {pcum[i]!r} vs running sum {R.running_sum(pcf)[i]!r}'))
            _metrics_consistent(fails, 'addon', pcf, pcum, fir(ae), bool(V(ae, 'discount_initial_year_cashflow')),
                                float(V(ae, 'ProjectNPV')), float(V(ae, 'ProjectIRR')), float(V(ae, 'ProjectVIR')),
                                float(V(ae, 'ProjectMOIC')), CCap + acap, Coam + aopex, L, None)
    state = [em, eu, cls, cy, L, excel, carbon_on, addon, [round(x, 9) for x in cf[:cy + 2]], round(pb, 9)]
    return {'fails': fails, 'state': state, 'nontrivial': bool(np.ptp(cf[cy:]) > 1e-12) if L > 1 else True,
            'crossing': crossing, 'pb': pb,
            'counters': {'payback_crossing': int(crossing), 'irr_nonzero': int(float(V(ec, 'ProjectIRR')) != 0)},
            'sample': {'family': payload.get('fam'), 'changes': payload.get('changes'), 'cashflow': cf[:cy + 2], 'payback': pb}}


def post_c04(obs, payload):
    from vf.core import rpt
    fails = []
    h = obs.get('hook') or {}
    hit = rpt.find_line(obs.get('report', ''), 'Project Payback Period')
    if hit is None:
        fails.append(('report/payback/missing', 'report has no "Project Payback Period" line'))
    else:
        shown_na = hit[0].upper() == 'N/A'
        if shown_na and h.get('crossing'):
            fails.append(('report/payback/na_but_pays_back', 'report shows N/A although cumulative cash flow turns positive'))
        if (not shown_na) and not h.get('crossing'):
            fails.append(('report/payback/shown_but_never_positive', f'report shows payback {hit[0]} although cumulative cash flow never turns positive'))
    return {'fails': fails}
