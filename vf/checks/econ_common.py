"""Monitors on the live model for the economic identities (shared by C01, C03, C04, C11, C16, C18)."""
import math
import numpy as np

from vf.core import mv
from vf.core.mv import V, A, AdapterError
from vf.oracles import econ_ref as R

RT = 1e-9


def kind(m):
    """(econ model int, end-use int, plant class name)"""
    ec, sp = m.economics, m.surfaceplant
    return mv.enum_int(V(ec, 'econmodel')), mv.enum_int(V(sp, 'enduse_option')), type(sp).__name__


def _safe(fn, *a, **k):
    try:
        return fn(*a, **k)
    except (ZeroDivisionError, OverflowError, ValueError):
        return math.nan


def expected_lc(m):
    """dict product -> expected levelized cost in the reported unit, from the run's own reported figures."""
    ec, sp = m.economics, m.surfaceplant
    em, eu, cls = kind(m)
    L = int(V(sp, 'plant_lifetime'))
    C = float(V(ec, 'CCap'))
    O = float(V(ec, 'Coam'))
    ic = float(V(ec, 'inflrateconstruction'))
    ratio = float(V(ec, 'CAPEX_heat_electricity_plant_ratio'))
    price_buy = float(V(sp, 'electricity_cost_to_buy'))
    pump = [x * price_buy / 1e6 for x in A(sp, 'PumpingkWh')]
    zero = [0.0] * L
    out = {}

    def lc(Cx, Ox, X, Xavg, E):
        E = [float(e) for e in E]
        if em == 1:
            return _safe(R.lc_fcr, float(V(ec, 'FCR')), ic, Cx, Ox, Xavg, E)
        if em == 2:
            return _safe(R.lc_std, float(V(ec, 'discountrate')), ic, Cx, Ox, X, E)
        if em == 3:
            p = {k: float(V(ec, k)) for k in ('FIB', 'BIR', 'EIR', 'RINFL', 'CTR', 'GTR', 'RITC', 'PTR')}
            p['ic'] = ic
            return _safe(R.lc_bicycle, p, Cx, Ox, X, E)
        raise AdapterError(f'economic model {em} not modelled')

    avg_pump = float(V(ec, 'averageannualpumpingcosts'))     # as reported by the run
    if eu == 1:
        out['LCOE'] = lc(C, O, zero, 0.0, A(sp, 'NetkWhProduced'))
    elif eu == 2:
        if cls == 'SurfacePlantAbsorptionChiller':
            out['LCOC'] = lc(C, O, pump, avg_pump, A(sp, 'cooling_kWh_Produced')) * R.MMBTU
        elif cls == 'SurfacePlantHeatPump':
            hp = [x * price_buy / 1e6 for x in A(sp, 'heat_pump_electricity_kwh_used')]
            X = [a + b for a, b in zip(pump, hp)]
            out['LCOH'] = lc(C, O, X, avg_pump + float(V(ec, 'averageannualheatpumpelectricitycost')),
                             A(sp, 'HeatkWhProduced')) * R.MMBTU
        elif cls == 'SurfacePlantDistrictHeating':
            ng = [float(x) for x in np.atleast_1d(V(ec, 'annualngcost'))]
            X = [a + b for a, b in zip(pump, ng)]
            E = [float(V(sp, 'annual_heating_demand')) * 1e6] * L
            out['LCOH'] = lc(C, O, X, avg_pump + float(V(ec, 'averageannualngcost')), E) * R.MMBTU
        else:
            out['LCOH'] = lc(C, O, pump, avg_pump, A(sp, 'HeatkWhProduced')) * R.MMBTU
    else:
        out['LCOE'] = lc(C * ratio, O * ratio, zero, 0.0, A(sp, 'NetkWhProduced'))
        # heat share; the per-model treatment of pumping cost for cogeneration heat is the pinned asymmetry (DESIGN C01)
        Xh = pump if em == 2 else zero
        out['LCOH'] = lc(C * (1 - ratio), O * (1 - ratio), Xh, avg_pump, A(sp, 'HeatkWhProduced')) * R.MMBTU
    return out


REPORT_LABEL = {'LCOE': 'Electricity breakeven price', 'LCOH': 'Direct-Use heat breakeven price (LCOH)',
                'LCOC': 'Direct-Use Cooling Breakeven Price (LCOC)'}


def mon_c01(m, payload):
    fails = []
    ec, sp = m.economics, m.surfaceplant
    em, eu, cls = kind(m)
    exp = expected_lc(m)
    got = {}
    nontrivial = True
    for prod, e in exp.items():
        g = float(V(ec, prod))
        got[prod] = g
        if not mv.close(g, e, RT, 1e-12):
            fails.append((f'lc/model{em}/{prod}/{"cogen" if eu > 2 else cls}',
                          f'{prod}: reported {g!r}, formula on reported costs/energy gives {e!r} (econ model {em}, end-use {eu}, {cls})'))
        if not (math.isfinite(g) and g != 0):
            nontrivial = False
    series = A(sp, 'NetkWhProduced') if 'LCOE' in exp else (A(sp, 'cooling_kWh_Produced') if 'LCOC' in exp else A(sp, 'HeatkWhProduced'))
    if np.ptp(series) < 1e-9 * max(1.0, float(np.max(np.abs(series)))):
        nontrivial = False
    addon = getattr(m, 'addeconomics', None) is not None and bool(V(ec, 'DoAddOnCalculations'))
    state = [em, eu, cls, type(m.reserv).__name__, int(V(sp, 'plant_lifetime')), addon,
             {k: (round(v, 9) if math.isfinite(v) else str(v)) for k, v in got.items()}]
    return {'fails': fails, 'state': state, 'nontrivial': nontrivial, 'exp': exp,
            'sample': {'family': payload.get('fam'), 'changes': payload.get('changes'), 'reported': got}}


def post_c01(obs, payload):
    """report lines at printed precision (runs in the child after the run)."""
    from vf.core import rpt
    fails = []
    h = obs.get('hook') or {}
    exp = h.get('exp') or {}
    rep = obs.get('report', '')
    for prod, e in exp.items():
        hit = rpt.find_line(rep, REPORT_LABEL[prod])
        if hit is None:
            fails.append((f'report/missing/{prod}', f'report has no line "{REPORT_LABEL[prod]}"'))
            continue
        if not rpt.printed_matches(e, hit[0]):
            fails.append((f'report/{prod}', f'report prints {hit[0]} {hit[1]} for {prod}, formula gives {e!r}'))
    if 'ADD-ON' in rep.upper() or 'ADDON' in rep.upper():
        for prod, lab in (('LCOE', 'Adjusted Project LCOE (after incentives, grants, AddOns,etc)'),
                          ('LCOH', 'Adjusted Project LCOH (after incentives, grants, AddOns,etc)')):
            hit = rpt.find_line(rep, lab)
            if hit is not None and prod in exp and not rpt.printed_matches(exp[prod], hit[0]):
                fails.append((f'report/adjusted/{prod}', f'report prints adjusted {prod} {hit[0]}, formula gives {exp[prod]!r}'))
    return {'fails': fails}
