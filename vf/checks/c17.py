"""C17 — heat-in-place assessment adds up and scales with reservoir size (harness-driven HIP-RA-X, unary + relational)."""
import itertools
import math
import os
import sys

from vf.core import e1, check, runner, mv

PID = 'C17'

BASE = {'Reservoir Temperature': 250.0, 'Rejection Temperature': 60.0, 'Reservoir Porosity': 10.0, 'Reservoir Area': 55.0,
        'Reservoir Thickness': 0.25, 'Reservoir Life Cycle': 25}
EXTENSIVE = ['Reservoir Volume (reservoir)', 'Reservoir Volume (rock)', 'Recoverable Volume (recoverable fluid)', 'Stored Heat (reservoir)',
             'Stored Heat (rock)', 'Stored Heat (fluid)', 'Mass of Reservoir (total)', 'Mass of Reservoir (rock)', 'Mass of Reservoir (fluid)',
             'Available Heat (reservoir)', 'Producible Heat (reservoir)', 'Producible Electricity (reservoir)']
PER_AREA = ['Producible Heat/Unit Area (reservoir)', 'Producible Electricity/Unit Area (reservoir)']
PER_VOLUME = ['Producible Heat/Unit Volume (reservoir)', 'Producible Electricity/Unit Volume (reservoir)']
PERCENT = ['Recovery Factor (reservoir)']
INTENSIVE = ['Specific Enthalpy (reservoir)', 'Specific Enthalpy (rock)', 'Specific Enthalpy (fluid)']


def hip_run(params):
    """child: the real HIP_RA_X object driven exactly as its main() does (read, Calculate); snapshot before printing."""
    import tempfile
    from vf.core import sim
    lines = [f'{k}, {v!r}' if not isinstance(v, str) else f'{k}, {v}' for k, v in params.items()]
    p = sim.write_input(lines)
    sys.argv = ['', str(p), os.path.join(tempfile.gettempdir(), 'hip.out')]
    from hip_ra_x.hip_ra_x import HIP_RA_X
    m = HIP_RA_X(enable_hip_ra_logging_config=False)
    try:
        m.read_parameters()
        m.Calculate()
    except BaseException as e:  # noqa
        return {'status': 'not_accepted', 'exc': f'{type(e).__name__}: {e}'}
    out = {k: float(p.value) for k, p in m.OutputParameterDict.items() if isinstance(p.value, (int, float))}
    ins = {k: float(p.value) for k, p in m.ParameterDict.items() if isinstance(p.value, (int, float)) and not isinstance(p.value, bool)}
    try:
        m.PrintOutputs()
        printed = True
    except BaseException as e:  # noqa
        printed = f'{type(e).__name__}: {e}'
    return {'status': 'accepted', 'out': out, 'in': ins, 'printed': printed}


def discover(_):
    from hip_ra_x.hip_ra_x import HIP_RA_X
    from geophires_x.Parameter import floatParameter, intParameter
    sys.argv = ['']
    m = HIP_RA_X(enable_hip_ra_logging_config=False)
    d = {}
    for k, p in m.ParameterDict.items():
        if isinstance(p, floatParameter):
            d[k] = ('float', float(p.Min), float(p.Max), float(p.DefaultValue))
        elif isinstance(p, intParameter):
            r = sorted(p.AllowableRange)
            d[k] = ('int', r[0], r[-1], p.DefaultValue)
    return d


def unary(res, params, o, ctx):
    out, ins = o['out'], o['in']
    A, h, phi = ins['Reservoir Area'], ins['Reservoir Thickness'], ins['Reservoir Porosity']
    Rf = ins['Recoverable Fluid Factor']
    V = out['Reservoir Volume (reservoir)']

    def chk(key, got, exp, what):
        if not mv.close(got, exp, 1e-9, 1e-300):
            check.fail(res, key, f'{what}: got {got!r}, expected {exp!r} {ctx}')
    chk('volume/reservoir', V, A * h, 'reservoir volume = area x thickness')
    chk('volume/rock', out['Reservoir Volume (rock)'], V * (1 - phi / 100.0), 'rock volume = volume x (1 - porosity)')
    chk('volume/fluid', out['Recoverable Volume (recoverable fluid)'], V * phi / 100.0 * Rf, 'recoverable fluid volume = volume x porosity x recoverable fluid factor')
    st, sr, sf = out['Stored Heat (reservoir)'], out['Stored Heat (rock)'], out['Stored Heat (fluid)']
    chk('stored/sum', st, sr + sf, 'stored heat = rock part + fluid part')
    av, pr = out['Available Heat (reservoir)'], out['Producible Heat (reservoir)']
    if all(math.isfinite(x) for x in (st, av, pr)) and st >= 0:
        if av > st * (1 + 1e-12):
            check.fail(res, 'cascade/available_exceeds_stored', f'available heat {av!r} exceeds stored heat {st!r} {ctx}')
        if pr > av * (1 + 1e-12) and av >= 0:
            check.fail(res, 'cascade/producible_exceeds_available', f'producible heat {pr!r} exceeds available heat {av!r} {ctx}')
    return out


def point_task(payload):
    res = check.new_result()
    for params in payload['points']:
        tag = runner.fork_exec(hip_run, params, timeout=120)
        res['execs'] += 1
        res['steps'] += 1
        if tag[0] != 'ok':
            res['infra'].append(f'HIP run failed: {tag[1]} {tag[2] if len(tag) > 2 else ""}')
            continue
        o = tag[1]
        if o['status'] != 'accepted':
            res['not_accepted'] += 1
            check.note(res, 'rejected_inputs', f"{o['exc'][:100]} :: { {k: v for k, v in params.items() if BASE.get(k) != v} }")
            continue
        res['accepted'] += 1
        ctx = f'[{ {k: v for k, v in params.items() if BASE.get(k) != v} }]'
        out = unary(res, params, o, ctx)
        d = check.digest([round(out['Stored Heat (reservoir)'], 3), round(out['Producible Heat (reservoir)'], 3), round(out['Reservoir Volume (reservoir)'], 9)])
        res['states'].append(d)
        if out['Stored Heat (reservoir)'] > 0 and math.isfinite(out['Producible Heat (reservoir)']):
            res['nontrivial'].append(d)
        # scaling relations
        for which in payload.get('scale', []):
            for k in (0.5, 2.0, 10.0):
                p2 = dict(params)
                p2[which] = params[which] * k
                if not (0 < p2[which] <= 10000.0):
                    continue
                t2 = runner.fork_exec(hip_run, p2, timeout=120)
                res['execs'] += 1
                res['steps'] += 1
                if t2[0] != 'ok' or t2[1]['status'] != 'accepted':
                    if t2[0] != 'ok':
                        res['infra'].append(f'HIP run failed: {t2[1]}')
                    else:
                        res['not_accepted'] += 1
                    continue
                res['accepted'] += 1
                o2 = t2[1]['out']
                short = 'area' if which == 'Reservoir Area' else 'thickness'
                for name in EXTENSIVE:
                    if not mv.close(o2[name], k * out[name], 1e-9, 1e-300):
                        check.fail(res, f'scaling/{short}/extensive/{name}', f'{which} x {k}: {name} = {o2[name]!r}, expected {k} x {out[name]!r} {ctx}')
                same = PER_VOLUME + PERCENT + INTENSIVE + (PER_AREA if short == 'area' else [])
                for name in same:
                    if not mv.close(o2[name], out[name], 1e-9, 1e-300):
                        check.fail(res, f'scaling/{short}/unchanged/{name}', f'{which} x {k}: {name} changed from {out[name]!r} to {o2[name]!r} {ctx}')
                d2 = check.digest([ctx, which, k])
                res['states'].append(d2)
                res['nontrivial'].append(d2)
    res['sample'] = {'hip_ra_x': {'params': payload['points'][0], 'scaled': payload.get('scale', [])}}
    return res


UNIT_PARAMS = {'Reservoir Temperature': 'degC', 'Rejection Temperature': 'degC', 'Reservoir Area': 'km**2', 'Reservoir Thickness': 'kilometer',
               'Density Of Reservoir Rock': 'kg/km**3', 'Density Of Reservoir Fluid': 'kg/km**3', 'Reservoir Depth': 'kilometer', 'Reservoir Pressure': 'MPa'}


def unit_task(payload):
    """inputs written in other listed units give the same results (every convertible catalogue unit of the parameter's dimension)."""
    from vf.oracles import units_ref as UR
    res = check.new_result()
    base = dict(BASE)
    base.update(payload.get('extra', {}))
    tag = runner.fork_exec(hip_run, base, timeout=120)
    res['execs'] += 1
    if tag[0] != 'ok' or tag[1]['status'] != 'accepted':
        res['infra'].append(f'HIP unit base failed: {tag[1]}')
        return res
    b = tag[1]['out']
    for name, decl in payload['params']:
        v = base.get(name)
        if v is None:
            continue
        dims = UR.dims(decl)
        table = UR.TEMP if dims == ['temperature'] else UR.LIN[dims[0]]
        for U in table:
            if U == UR.norm(decl) or U in ('m', 'km', 'mi', 'K'):
                continue
            vp = float(f'{UR.convert(v, decl, U):.12g}')
            p2 = dict(base)
            p2[name] = f'{vp!r} {U}'
            t2 = runner.fork_exec(hip_run, p2, timeout=120)
            res['execs'] += 1
            res['steps'] += 1
            d = check.digest(['unit', name, U, sorted(payload.get('extra', {}))])
            res['states'].append(d)
            utype = dims[0]
            if t2[0] != 'ok':
                res['infra'].append(f'HIP run failed: {t2[1]}')
                continue
            if t2[1]['status'] != 'accepted':
                res['not_accepted'] += 1
                check.fail(res, f'units/rejected/{utype}/{U}', f'"{name}, {vp} {U}" (= {v} {decl}) is rejected: {t2[1]["exc"][:160]}')
                continue
            res['accepted'] += 1
            res['nontrivial'].append(d)
            o2 = t2[1]['out']
            bad = [k for k in b if not mv.close(o2.get(k, math.nan), b[k], 1e-7, 1e-300)]
            if bad:
                check.fail(res, f'units/results_differ/{utype}/{U}/{name}', f'"{name}, {vp} {U}" instead of {v} {decl} changes {bad[:4]}: e.g. {b[bad[0]]!r} -> {o2.get(bad[0])!r}')
    res['sample'] = {'hip_ra_x_units': {'params': payload['params'], 'extra': payload.get('extra', {})}}
    return res


# ---------------------------------------------------------------------------------------------- client histories
# The assessment as a caller gets it: one HipRaXClient instance serving a sequence of requests for ONE file path whose content is rewritten
# between the calls. Contents 0 and 1 have the same byte length (a cache keyed on path, size or modification time cannot tell them apart),
# 2/3 are the area and thickness doubled, 4 is the thickness written in metres, 5 is rejected (porosity out of range).
def _content(i):
    b = dict(BASE)
    if i == 1:
        b['Reservoir Area'] = 27.5
    elif i == 2:
        b['Reservoir Area'] = 110.0
    elif i == 3:
        b['Reservoir Thickness'] = 0.5
    elif i == 4:
        b['Reservoir Thickness'] = '250.0 m'
    elif i == 5:
        b['Reservoir Porosity'] = 250.0
    return ''.join(f'{k}, {v}\n' for k, v in b.items())


N_CONTENTS = 6


def client_history(spec):
    """child: spec = {hist: [content index...], mtime: newer|same|older, reuse: bool, caching: bool}; one observation per request."""
    import tempfile
    import logging
    logging.disable(logging.CRITICAL)
    from hip_ra_x import HipRaXClient
    from hip_ra import HipRaInputParameters
    d = tempfile.mkdtemp(prefix='hipc-')
    path = os.path.join(d, 'assessment.txt')
    client = HipRaXClient(enable_caching=spec['caching'])
    t0 = 1_600_000_000
    req = None
    obs = []
    for i, ci in enumerate(spec['hist']):
        with open(path, 'w') as f:
            f.write(_content(ci))
        t = t0 + (10 * i if spec['mtime'] == 'newer' else -10 * i if spec['mtime'] == 'older' else 0)
        os.utime(path, (t, t))
        if req is None or not spec['reuse']:
            req = HipRaInputParameters(path)
        cwd0, argv0 = os.getcwd(), list(sys.argv)
        try:
            r = client.get_hip_ra_result(req)
            o = {'ok': {k: [v.get('value'), v.get('unit')] for k, v in r.result.items()}}
        except BaseException as e:  # noqa
            o = {'err': type(e).__name__}
        o['cwd_kept'] = os.getcwd() == cwd0
        o['argv_kept'] = list(sys.argv) == argv0
        obs.append(o)
    return obs


def client_task(payload):
    res = check.new_result()
    ref = {}
    for ci in range(N_CONTENTS):
        tag = runner.fork_exec(client_history, {'hist': [ci], 'mtime': 'newer', 'reuse': False, 'caching': True}, timeout=120)
        res['execs'] += 1
        if tag[0] != 'ok':
            res['infra'].append(f'HIP client reference run failed: {tag[1]}')
            return res
        ref[ci] = {k: v for k, v in tag[1][0].items() if k in ('ok', 'err')}
    # the references themselves: doubling area / thickness doubles the printed extensive figures (to printed precision), metres = kilometres
    def val(ci, name):
        return (ref[ci].get('ok') or {}).get(name, [None])[0]
    for ci, what in ((2, 'area'), (3, 'thickness')):
        for name in ('Reservoir Volume (reservoir)', 'Stored Heat (reservoir)', 'Producible Heat (reservoir)'):
            a, b_ = val(0, name), val(ci, name)
            if a is None or b_ is None or not mv.close(b_, 2 * a, 1e-2, 0):
                check.fail(res, f'client/scaling/{what}/{name}', f'client result: {name} = {b_!r} with the {what} doubled, {a!r} before')
    if ref[4] != ref[0] and 'ok' in ref[0]:
        bad = [k for k in ref[0]['ok'] if (ref[4].get('ok') or {}).get(k) != ref[0]['ok'][k]]
        if bad:
            check.fail(res, 'client/units/thickness_m', f'client result with the thickness written as 250.0 m differs from 0.25 km in {bad[:3]}')
    for spec in payload['specs']:
        tag = runner.fork_exec(client_history, spec, timeout=300)
        res['execs'] += 1
        res['steps'] += len(spec['hist'])
        if tag[0] != 'ok':
            res['infra'].append(f'HIP client history failed: {tag[1]} {spec}')
            continue
        res['accepted'] += 1
        mode = f"{spec['mtime']}/{'same_request_object' if spec['reuse'] else 'new_request_object'}/{'caching' if spec['caching'] else 'no_caching'}"
        for i, (ci, o) in enumerate(zip(spec['hist'], tag[1])):
            got = {k: v for k, v in o.items() if k in ('ok', 'err')}
            if got != ref[ci]:
                if 'ok' in got and 'ok' in ref[ci]:
                    bad = [k for k in ref[ci]['ok'] if got['ok'].get(k) != ref[ci]['ok'][k]]
                    msg = f'{bad[:3]}: e.g. {got["ok"].get(bad[0]) if bad else None!r} instead of {ref[ci]["ok"].get(bad[0]) if bad else None!r}'
                else:
                    msg = f'{list(got)[0]} instead of {list(ref[ci])[0]}'
                check.fail(res, f'client/stale_or_foreign_result/{mode}', f'request {i} of history {spec["hist"]} (content {ci}) is not answered with the assessment of '
                           f'that content as a fresh process gives it: {msg}')
            if not o['cwd_kept'] or not o['argv_kept']:
                check.fail(res, 'client/caller_state', f'request {i} of history {spec["hist"]} left cwd kept={o["cwd_kept"]} argv kept={o["argv_kept"]}')
        d = check.digest(['client', spec])
        res['states'].append(d)
        if len(spec['hist']) > 1:
            res['nontrivial'].append(d)
    res['sample'] = {'hip_ra_x_client_history': payload['specs'][0] if payload['specs'] else None}
    return res


def client_plan(tier):
    P, specs = [], []
    depth = 2 if tier == 'quick' else 3
    for n in range(1, depth + 1):
        for hist in itertools.product(range(N_CONTENTS), repeat=n):
            for mt in ('newer', 'same', 'older'):
                for reuse in (False, True):
                    for caching in (True, False):
                        if n == 1 and (mt != 'newer' or reuse):
                            continue
                        specs.append({'hist': list(hist), 'mtime': mt, 'reuse': reuse, 'caching': caching})
    B = 24
    for i in range(0, len(specs), B):
        P.append({'kind': 'client', 'specs': specs[i:i + B]})
    return P


def task(payload):
    if payload.get('kind') == 'units':
        return unit_task(payload)
    if payload.get('kind') == 'client':
        return client_task(payload)
    return point_task(payload)


def plan(tier, seed):
    runner.preload()
    tag = runner.fork_exec(discover, None, timeout=120)
    if tag[0] != 'ok':
        raise RuntimeError(f'HIP-RA-X discovery failed: {tag[1]} {tag[2] if len(tag) > 2 else ""}')
    decl = tag[1]
    al = {}
    for name, (t, lo, hi, default) in decl.items():
        base = BASE.get(name, default)
        if t == 'int':
            al[name] = sorted({lo, hi, int((lo + hi) / 2), max(lo, min(hi, 10))} - {base})
            continue
        vals = [lo, hi, lo + (hi - lo) * 0.25, lo + (hi - lo) * 0.6]
        if base is not None and base > 0:
            vals += [max(lo, base / 2), min(hi, base * 2)]
        al[name] = [v for v in dict.fromkeys(vals) if v != base]
    # temperatures: keep physically ordered alternatives too
    al['Reservoir Temperature'] = [v for v in (decl['Reservoir Temperature'][1], decl['Reservoir Temperature'][2], 120.0, 180.0, 320.0) if v != BASE['Reservoir Temperature']]
    al['Rejection Temperature'] = [v for v in (decl['Rejection Temperature'][1], decl['Rejection Temperature'][2], 15.0, 25.0, 100.0) if v != BASE['Rejection Temperature']]
    pts = [(dict(BASE), True)]
    names = list(al)
    for n in names:
        for v in al[n]:
            p = dict(BASE)
            p[n] = v
            pts.append((p, True))
    dmax = 2
    for a, b in itertools.combinations(names, 2):
        va = al[a][:3] if tier == 'quick' else al[a]
        vb = al[b][:3] if tier == 'quick' else al[b]
        for x, y in itertools.product(va, vb):
            p = dict(BASE)
            p[a], p[b] = x, y
            pts.append((p, tier == 'thorough' and a in ('Reservoir Temperature', 'Reservoir Porosity')))
    P = []
    B = 12
    for i in range(0, len(pts), B):
        chunk = pts[i:i + B]
        sc = [p for p, s in chunk if s]
        ns = [p for p, s in chunk if not s]
        if sc:
            P.append({'points': sc, 'scale': ['Reservoir Area', 'Reservoir Thickness']})
        if ns:
            P.append({'points': ns, 'scale': []})
    plan.alphabets = {k: v for k, v in al.items()}
    extras = [{}, {'Density Of Reservoir Rock': 2.6e12, 'Density Of Reservoir Fluid': 9.0e11, 'Reservoir Depth': 4.0, 'Reservoir Pressure': 40.0}]
    for extra in extras:
        for name, decl in UNIT_PARAMS.items():
            if name in BASE or name in extra:
                P.append({'kind': 'units', 'params': [[name, decl]], 'extra': extra})
    P.extend(client_plan(tier))
    return P


def run(tier, seed, budget=None):
    return e1.run_generic(
        sys.modules[__name__], PID, tier, seed, budget,
        rule=('the real HIP_RA_X object driven as its main() does; every parameter alphabet {Min, Max, two interior points, base/2, 2xbase} '
              'discovered from the live parameter dictionary: all single deviations and all pairs of deviations (quick: 3 values per parameter '
              'in pairs) from the base; volumetric identities, additivity and the heat cascade on every accepted point; area and thickness '
              'scaled by k in {0.5,2,10} on every single-deviation point (and on temperature/porosity pairs in thorough); every unit-bearing input '
              're-expressed in every convertible catalogue unit. Client level: one HipRaXClient instance and one file path, ALL request histories of '
              'length <= 2 (thorough: 3) over 6 file contents (two of equal byte length, area x2, thickness x2, thickness in metres, a rejected one) x '
              'modification time of the rewritten file {newer, same, older} x {new, same} request object x caching {on, off}: every answer must equal '
              'the fresh-process answer for that content, caller cwd/argv kept. Non-trivial = stored '
              'heat positive and producible heat finite / history of >= 2 requests'),
        assumptions=['unit variants: every convertible catalogue unit for temperature, area, thickness, density, depth and pressure inputs (own conversion table)',
                     'outputs that the calculator never fills (rock/fluid split of available and producible heat) are 0 in every run and only checked for invariance'])
