"""C12 — input-file layout is irrelevant (E1, relational over an orbit of one parameter set)."""
import itertools
import sys

from vf.core import e1, check, rel, runner, sim, snap
from vf import families as F
from vf.checks.c01 import ADDON_GAIN

PID = 'C12'

SMALL = {   # <= 6 parameter lines each, chosen around the special cases that read another parameter's state while parameters are applied
    'enduse-plant': ['End-Use Option, 31', 'Power Plant Type, 3', 'Plant Outlet Pressure, 500', 'Reservoir Model, 4', 'Plant Lifetime, 4', 'Time steps per year, 2'],
    'cost-total-vs-factors': ['Total Capital Cost, 60', 'Exploration Capital Cost Adjustment Factor, 2', 'Surface Plant Capital Cost Adjustment Factor, 3',
                              'Exploration Capital Cost, 4', 'Plant Lifetime, 4', 'Time steps per year, 2'],
    'oam-total-vs-parts': ['Total O&M Cost, 3', 'Wellfield O&M Cost Adjustment Factor, 2', 'Wellfield O&M Cost, 0.4', 'Water Cost Adjustment Factor, 5',
                           'Plant Lifetime, 4', 'Time steps per year, 2'],
    'reservoir-volume': ['Reservoir Model, 1', 'Reservoir Volume Option, 4', 'Reservoir Volume, 2e8', 'Number of Fractures, 30', 'Plant Lifetime, 3', 'Time steps per year, 2'],
    'heat-pump': ['End-Use Option, 2', 'Power Plant Type, 6', 'Heat Pump COP, 3.1', 'Reservoir Depth, 2', 'Plant Lifetime, 4', 'Time steps per year, 2'],
    'wells-cost': ['Well Drilling and Completion Capital Cost, 6', 'Well Drilling and Completion Capital Cost Adjustment Factor, 2',
                   'Injection Well Drilling and Completion Capital Cost Adjustment Factor, 3', 'Well Drilling Cost Correlation, 3', 'Plant Lifetime, 4', 'Time steps per year, 2'],
    'gradients': ['Number of Segments, 3', 'Gradient 2, 30', 'Gradient 1, 60', 'Thickness 1, 1', 'Gradient 3, 80', 'Thickness 2, 1.5'],
}
COMMENT_STYLES = [', -- c', ', ---[unit]', ', # c', ', c with, commas', ',\t\t---c']
COMMENT_LINES = ['# comment', '-- comment', '* Gradient 1, 99, commented-out parameter', '   # Gradient 1, 99, indented commented-out parameter', '\t-- Reservoir Depth, 9', '  * star', '']


def full_inputs(tier):
    fams = [('elec-bicycle', F.base(3, 1, 2, 1, (4, 2, 2))), ('dh-standard', F.base(2, 2, 7, 4, (4, 2, 1))), ('cogen-fcr', F.base(1, 41, 4, 3, (4, 2, 3))),
            ('sbt-eavorloop', F.sbt_base(2, 31, 1, (4, 2, 2), 5))]     # closed loop: 'Is AGS' / Reservoir Model 8 select the module classes while reading
    if tier == 'thorough':
        fams += [('chiller', F.base(2, 2, 5, 2, (4, 2, 1))), ('topping', F.base(3, 32, 1, 4, (5, 3, 2)))]
    out = []
    for name, d in fams:
        d = F.override(d, {'Total O&M Cost': '3', 'Wellfield O&M Cost Adjustment Factor': '2', 'Investment Tax Credit Rate': '0.2', 'Plant Outlet Pressure': '500'})
        out.append((name, F.lines(d)))
    # the list-style spelling of the gradient profile (one line carrying several values; the reader parses it from the raw line)
    d = F.override(F.base(1, 2, 9, 4, (3, 2, 1)), {'Gradient 1': None, 'Number of Segments': '3', 'Gradients': '60, 35, 80', 'Thicknesses': '1.1, 0.9', 'Reservoir Depth': '3.4'})
    out.append(('list-gradients', F.lines(d)))
    return out


# whitespace other than blank and tab (str.strip() removes all of these; none of them ends a line for a text-mode reader)
WS_EXOTIC = ['\x0b', '\x0c', '\x1c', '\x1d', '\x1e', '\x1f', '\x85', '\xa0', '\u2009', '\u2028', '\u2029', '\u3000']


def variant_task(payload):
    res = check.new_result()
    rn = rel.Runner(res)
    base_lines = payload['base']
    b = rn.run(base_lines, tagname='orbit base')
    if b is None:
        res['infra'].append(f"orbit base not accepted: {payload['id']}")
        return res
    b_rep = b['report'].splitlines()
    b_out = b['hook']['out']
    for variant in payload['variants']:
        label, raw = variant[0], variant[1]
        override = variant[2] if len(variant) > 2 else None     # client-side overrides: [[name, value], ...] in the order of the dict

        def job(_):
            def at_hook(m):
                return {'out': snap.outputs(m)}
            o = sim.simulate(None, at_hook=at_hook, want=('report',), raw_text=raw, params=override)
            if o.get('report'):
                o['report'] = sim.strip_clock(o['report'])
            return o
        tag = runner.fork_exec(job, None, timeout=300)
        res['execs'] += 1
        res['steps'] += 1
        cls = label.split(':')[0]
        if tag[0] != 'ok':
            res['infra'].append(f'variant run failed: {tag[1]}')
            continue
        o = tag[1]
        if o.get('hook_exc'):
            res['infra'].append('hook crashed: ' + o['hook_exc'])
            continue
        if o['status'] != 'accepted':
            res['not_accepted'] += 1
            key = f'{cls}/rejected' + (f'/{payload["id"]}/{label}' if payload['id'] == 'full/list-gradients' else '')      # list-valued lines: own keys
            check.fail(res, key, f'[{payload["id"]}] variant "{label}" of an accepted input is rejected: {o.get("exc")}')
            continue
        res['accepted'] += 1
        bad = snap.diff(b_out, o['hook']['out'], 0.0, 0.0)
        rep = o['report'].splitlines()
        if bad:
            check.fail(res, f'{cls}/results_differ', f'[{payload["id"]}] variant "{label}" changes computed results: {bad[:5]}')
        elif rep != b_rep:
            dl = next(((x, y) for x, y in zip(b_rep, rep) if x != y), ('<length>', f'{len(b_rep)} vs {len(rep)} lines'))
            check.fail(res, f'{cls}/report_differs', f'[{payload["id"]}] variant "{label}" changes the report: {dl[0]!r} -> {dl[1]!r}')
        d = check.digest([payload['id'], label])
        res['states'].append(d)
        res['nontrivial'].append(d)
    res['sample'] = {'orbit': {'input': payload['id'], 'first_variant_label': payload['variants'][0][0], 'first_variant_text': payload['variants'][0][1][:300]}}
    return res


def task(payload):
    return variant_task(payload)


def text(lines, nl='\n'):
    return nl.join(lines) + nl


def other_value(line):
    """a different in-range value for the duplicate-before test (numeric values only)."""
    name, _, val = line.partition(',')
    if name.strip() in ('Gradients', 'Thicknesses'):      # list-valued: another list of the same length
        return f'{name.strip()}, ' + ', '.join(f'{float(x) * 0.9:g}' for x in val.split(','))
    v = val.strip().split(',')[0].strip()
    try:
        x = float(v)
    except ValueError:
        return None
    if name.strip() in ('Reservoir Model', 'End-Use Option', 'Power Plant Type', 'Economic Model', 'Number of Segments', 'Reservoir Volume Option',
                        'Fracture Shape', 'District Heating Demand Option', 'District Heating Demand Data Time Resolution',
                        'District Heating Demand Data Column Number', 'Well Drilling Cost Correlation', 'Print Output to Console',
                        'Ramey Production Wellbore Model'):
        return None       # structural options decide which modules exist at construction time; see DESIGN C12
    alt = x * 0.9 if x != 0 else 0.1
    if float(int(x)) == x and abs(x) >= 2 and '.' not in v:
        alt = int(x) - 1
    return f'{name.strip()}, {alt}'


def plan(tier, seed):
    P = []
    B = 40
    # fixed head (not permuted): a cheap accepted direct-use case; every permuted line comes later and therefore governs
    prefix = [l for l in F.lines(F.base(1, 2, 9, 4, (4, 2, 1))) if not l.startswith(('Plant Lifetime', 'Time steps per year'))]
    for sid, lines in SMALL.items():
        if tier == 'quick' and sid in ('heat-pump', 'wells-cost'):
            perms = [p for i, p in enumerate(itertools.permutations(range(len(lines)))) if i % 6 == 0]
        else:
            perms = list(itertools.permutations(range(len(lines))))
        variants = [('permutation:' + ''.join(map(str, p)), text(prefix + [lines[i] for i in p])) for p in perms]
        for i in range(0, len(variants), B):
            P.append({'id': 'small/' + sid, 'base': prefix + lines, 'variants': variants[i:i + B]})
    for fid, lines in full_inputs(tier):
        n = len(lines)
        variants = [('reorder:reversed', text(lines[::-1])), ('reorder:sorted', text(sorted(lines))), ('reorder:sorted-desc', text(sorted(lines, reverse=True)))]
        for r in range(1, n):
            variants.append((f'reorder:rotate{r}', text(lines[r:] + lines[:r])))
        for i in range(n - 1):
            l2 = list(lines)
            l2[i], l2[i + 1] = l2[i + 1], l2[i]
            variants.append((f'reorder:swap{i}', text(l2)))
        for i in range(n):
            rest = lines[:i] + lines[i + 1:]
            variants.append((f'reorder:front{i}', text([lines[i]] + rest)))
            variants.append((f'reorder:back{i}', text(rest + [lines[i]])))
        # decorations applied to all lines at once
        variants += [
            ('decor:crlf', text(lines, '\r\n')), ('decor:leading-blanks', text(['   ' + l for l in lines])), ('decor:trailing-blanks', text([l + '   ' for l in lines])),
            ('decor:tabs', text(['\t' + l.replace(', ', ',\t') + '\t' for l in lines])), ('decor:blanks-around-commas', text([l.replace(', ', '  ,   ') for l in lines])),
            ('decor:blank-lines', text([x for l in lines for x in (l, '')])), ('decor:no-final-newline', '\n'.join(lines)),
        ]
        # every character str.strip() removes is whitespace to the reader: around the name, before and after the value
        for w in WS_EXOTIC:
            variants.append((f'decor:ws-{ord(w):04x}', text([w + l.replace(', ', w + ',' + w, 1) + w for l in lines])))
        for ci, cs in enumerate(COMMENT_STYLES):
            variants.append((f'decor:comment-field{ci}', text([l + cs for l in lines])))
        for ci, cl in enumerate(COMMENT_LINES):
            variants.append((f'decor:comment-line{ci}', text([x for l in lines for x in (cl, l)])))
        # decorations applied to each line singly
        for i, l in enumerate(lines):
            if tier == 'quick' and i % 3 != 0 and fid != 'elec-bicycle':
                continue
            for di, dec in enumerate(('   ' + l, l + ' \t', l.replace(', ', ' ,\t'), l + COMMENT_STYLES[i % 5], l + '\r')):
                l2 = list(lines)
                l2[i] = dec
                variants.append((f'decor1:line{i}-{di}', text(l2)))
            l2 = lines[:i] + [COMMENT_LINES[i % 6]] + lines[i:]
            variants.append((f'decor1:comment-before{i}', text(l2)))
            ov = other_value(l)
            if ov:
                variants.append((f'duplicate:before{i}', text(lines[:i] + [ov] + lines[i:])))
                # the governing line textually identical to an earlier occurrence, another value in between (x, y, x): still the last one governs
                variants.append((f'duplicate:xyx{i}', text(lines[:i] + [l, ov] + lines[i:])))
                variants.append((f'duplicate:xyx-top{i}', text([l, ov] + lines)))
                variants.append((f'duplicate:first-line{i}', text([ov] + lines)))
            variants.append((f'duplicate:same-after{i}', text(lines + [l])))
        # the client's "params override the base file" path: the file carries another value for some parameters (or does not mention them), the
        # dictionary the true one; whatever the layout of the file's end, the dictionary's entries are later occurrences and govern
        n = len(lines)
        for pick in ([0, n - 1], [n - 1], [n // 2, n // 3], [n - 2, 1, n - 1]):
            file_lines = list(lines)
            over = []
            for i in pick:
                ov = other_value(lines[i])
                name, _, val = lines[i].partition(',')
                if ov is None:
                    file_lines[i] = None        # not in the file at all; only the dictionary sets it
                else:
                    file_lines[i] = ov
                over.append([name.strip(), val.strip()])
            fl = [l for l in file_lines if l is not None]
            for oi, order in enumerate((over, over[::-1])):
                if oi and len(over) < 2:
                    continue
                for lay, raw in (('lf', text(fl)), ('no-final-newline', '\n'.join(fl)), ('crlf', text(fl, '\r\n')), ('crlf-no-final-newline', '\r\n'.join(fl)),
                                 ('blank-tail', text(fl) + '\n\n'), ('comment-tail-no-newline', text(fl) + '# end')):
                    variants.append((f'override:{"-".join(map(str, pick))}/{oi}/{lay}', raw, order))
                if pick == [n - 1] and oi == 0:
                    for w in WS_EXOTIC:
                        variants.append((f'override:{n - 1}/ws-{ord(w):04x}', text([w + l.replace(', ', w + ',' + w, 1) + w for l in fl]), order))
        for i in range(0, len(variants), B):
            P.append({'id': 'full/' + fid, 'base': lines, 'variants': variants[i:i + B]})
    # an input that uses BOTH extensions and relies on their auto-detection (no 'Do AddOn Calculations' line): the add-on block keeps its own
    # relative order (as the property allows), everything else moves - each other line to the front / to the back, the whole add-on block and
    # the whole S-DAC-GT block to every position, the two blocks swapped, all lines reversed around the fixed-order add-on block
    core = [l for l in F.lines(F.base(1, 1, 2, 4, (4, 2, 1))) if not l.startswith('Construction Years')] + ['Construction Years, 1']
    addon = [f'{k}, {v}' for k, v in ADDON_GAIN.items() if k.startswith('AddOn')]
    sdac = ['Do S-DAC-GT Calculations, True', 'S-DAC-GT CAPEX, 1300', 'S-DAC-GT OPEX, 120', 'S-DAC-GT Electrical Energy, 900', 'S-DAC-GT Thermal Energy, 1500']
    base_lines = core + addon + sdac
    variants = []
    for pos in sorted({0, 1, len(core) // 2, len(core)}):
        for pos2 in sorted({0, len(core) // 3, len(core)}):
            rest = list(core)
            # insert the later block first so that positions refer to the core
            a, b = (pos, addon), (pos2, sdac)
            for label, first, second in (('addon-first', a, b), ('sdac-first', b, a)):
                l2 = list(rest)
                hi, lo = (first, second) if first[0] >= second[0] else (second, first)
                l2[hi[0]:hi[0]] = hi[1]
                l2[lo[0]:lo[0]] = lo[1]
                if first[0] == second[0]:       # same position: 'first' block really comes first
                    l2 = rest[:first[0]] + first[1] + second[1] + rest[first[0]:]
                variants.append((f'blocks:{label}@{pos}/{pos2}', text(l2)))
    variants.append(('blocks:sdac-lines-spread', text([x for i, l in enumerate(core) for x in ([l] + ([sdac[i // 7]] if i % 7 == 0 and i // 7 < len(sdac) else []))] + addon)))
    variants.append(('blocks:core-reversed', text(sdac[::-1] + core[::-1] + addon)))
    variants.append(('blocks:core-reversed-addon-first', text(addon + core[::-1] + sdac[::-1])))
    for i in range(len(core)):
        if tier == 'quick' and i % 4:
            continue
        rest = core[:i] + core[i + 1:]
        variants.append((f'blocks:front{i}', text([core[i]] + rest + addon + sdac)))
        variants.append((f'blocks:back{i}', text(sdac + addon + rest + [core[i]])))
    for i in range(0, len(variants), B):
        P.append({'id': 'full/addons-sdacgt', 'base': base_lines, 'variants': variants[i:i + B]})
    return P


def run(tier, seed, budget=None):
    return e1.run_generic(
        sys.modules[__name__], PID, tier, seed, budget,
        rule=('orbits of one parameter set on the real pipeline: ALL n! orders of seven 6-line inputs built around order-sensitive special cases '
              '(quick: every 6th permutation for two of them); for full-size inputs (3; thorough 5): reversal, both sorts, all rotations, all adjacent '
              'transpositions, every single-line move to front/back; decorations on all lines at once and on each line singly (blanks, tabs, the twelve other characters str.strip() removes, blanks around '
              'commas, five comment-field styles, CR, comment lines with each prefix, blank lines, missing final newline); a duplicate with a different '
              'in-range value inserted before each line / at the top (last occurrence governs), the x, y, x pattern, and an identical duplicate appended; the override '
              'dictionary of the client on top of a base file; an input using add-ons and S-DAC-GT by auto-detection with its two blocks moved to every position (add-on lines in their own order) (4 choices of overridden lines x 2 dictionary orders x 6 layouts of the end of the file). Oracle: computed '
              'results bit-identical and report text identical (clock lines removed)'),
        assumptions=['duplicate-with-different-value is not applied to the structural options that Model.__init__ reads from the raw input before modules exist',
                     'trailing comments are tested in the comma-separated styles the shipped examples use'])
