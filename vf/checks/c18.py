"""C18 — outputs respond monotonically where the model says they must (E1, relational over ordered alphabets; all ordered pairs)."""
import itertools
import sys

import numpy as np

from vf.core import e1, check, rel, runner, mv
from vf import families as F
from vf.checks import c05

PID = 'C18'
TOL = 1e-9


def leq(a, b):
    """a <= b up to relative tolerance"""
    return a <= b + TOL * max(abs(a), abs(b), 1e-300)


# ---------------------------------------------------------------- (a) bottom-hole temperature vs gradient / depth
GR = ['1.01', '10', '30', '50', '80', '120', '300', '500']
DP = ['0.1', '0.5', '1', '2', '3', '5', '7', '10', '15']
LAYOUTS = [(1, ['50'], []), (2, ['30', '60'], ['1']), (3, ['60', '20', '90'], ['0.5', '2']), (4, ['30', '50', '30', '50'], ['0.5', '0.5', '0.5'])]


def trock_task(payload):
    res = check.new_result()
    nseg, grads, thicks = payload['layout']
    vals = []
    for v in payload['values']:
        g, depth = list(grads), payload['depth']
        if payload['vary'] == 'depth':
            depth = v
        else:
            g[payload['vary']] = v
        case = [nseg, g, thicks, depth, payload['tmax'], '15']
        tag = runner.fork_exec(c05.reservoir_level, case, timeout=120)
        res['execs'] += 1
        res['steps'] += 1
        if tag[0] != 'ok':
            res['infra'].append(f'reservoir-level run failed: {tag[1]}')
            continue
        if tag[1]['status'] != 'accepted':
            res['not_accepted'] += 1
            continue
        res['accepted'] += 1
        vals.append((float(v), tag[1]['Trock']))
    what = 'depth' if payload['vary'] == 'depth' else f'gradient {payload["vary"] + 1}'
    for (x1, t1), (x2, t2) in itertools.combinations(vals, 2):
        if x1 < x2 and not leq(t1, t2):
            check.fail(res, f'trock/{"depth" if payload["vary"] == "depth" else "gradient"}',
                       f'bottom-hole temperature falls from {t1!r} to {t2!r} when {what} rises from {x1} to {x2} (layout {payload["layout"]}, depth {payload["depth"]}, Tmax {payload["tmax"]})')
    d = check.digest([payload, vals])
    res['states'].append(d)
    if len({t for _, t in vals}) > 1:
        res['nontrivial'].append(d)
    res['sample'] = {'trock': {'vary': what, 'layout': payload['layout'], 'tmax': payload['tmax'], 'values': vals[:4]}}
    return res


# ---------------------------------------------------------------- (b), (c), (e): end-to-end ordered alphabets
def series_hook(m):
    return {'Tres': [float(x) for x in np.asarray(m.reserv.Tresoutput.value, dtype=float)],
            'Tprod0': float(np.asarray(m.wellbores.ProducedTemperature.value, dtype=float)[0]),
            'redrill': int(m.wellbores.redrill.value),
            'net': [float(x) for x in np.atleast_1d(np.asarray(m.surfaceplant.NetkWhProduced.value, dtype=float))],
            'heat': [float(x) for x in np.atleast_1d(np.asarray(m.surfaceplant.HeatkWhProduced.value, dtype=float))],
            'c_prod': float(m.economics.cost_one_production_well.value), 'depth_m': float(m.reserv.depth.quantity().to('m').magnitude)}


def ordered_task(payload):
    res = check.new_result()
    rn = rel.Runner(res)
    fam, name, values, clause = payload['fam'], payload['param'], payload['values'], payload['clause']
    extra = payload.get('extra', {})
    obs = []
    for v in values:
        ch = dict(extra)
        ch[name] = v
        o = rn.run(F.lines(F.override(F.fam_base(fam), ch)), want=(), extra_hook=series_hook, tagname=f'{name}={v}')
        if o is not None:
            obs.append((float(v), o['hook']['out'], o['hook']['extra']))
    ctx = f'[{F.fam_id(fam)} {extra}]'
    for (x1, o1, e1_), (x2, o2, e2_) in itertools.combinations(obs, 2):
        if not x1 < x2:
            continue
        if clause == 'drawdown':
            if e1_['redrill'] or e2_['redrill']:
                continue
            bad = [k for k, (a, b) in enumerate(zip(e1_['Tres'], e2_['Tres'])) if not leq(b, a)]
            if bad:
                k = bad[0]
                check.fail(res, 'drawdown/tres', f'reservoir temperature at step {k} rises from {e1_["Tres"][k]!r} to {e2_["Tres"][k]!r} when the drawdown rate rises from {x1} to {x2} {ctx}')
        elif clause == 'flow':
            if not leq(e1_['Tprod0'], e2_['Tprod0']):
                check.fail(res, 'flow/tprod0', f'initial production temperature falls from {e1_["Tprod0"]!r} to {e2_["Tprod0"]!r} when flow per well rises from {x1} to {x2} {ctx}')
        elif clause == 'welldepth':
            d1, d2 = e1_['depth_m'], e2_['depth_m']
            same_regime = (d1 < 500 and d2 < 500) or (500 <= d1 <= 7000 and 500 <= d2 <= 7000)
            if same_regime and d1 < d2 and not leq(e1_['c_prod'], e2_['c_prod']):
                check.fail(res, f'wellcost/e2e/corr{extra.get("Well Drilling Cost Correlation")}', f'cost of one well falls from {e1_["c_prod"]!r} to {e2_["c_prod"]!r} when depth rises from {d1} to {d2} m {ctx}')
        elif clause == 'cost':
            npv1, npv2 = o1['economics.Project Net Present Value'], o2['economics.Project Net Present Value']
            if not leq(npv2, npv1):
                check.fail(res, f'cost/npv/{name}', f'NPV rises from {npv1!r} to {npv2!r} when {name} rises from {x1} to {x2} {ctx}')
            for lc, series in (('economics.LCOE', 'net'), ('economics.LCOH', 'heat'), ('economics.LCOC', 'heat')):
                a, b = o1.get(lc), o2.get(lc)
                if a is None or b is None or (a == 0 and b == 0) or a != a or b != b:
                    continue      # not reported for this end-use, or undefined (0/0 when a factor zeroes the whole plant cost)
                positive = all(x > 0 for x in e1_[series]) and all(x > 0 for x in e2_[series])
                if positive and not leq(a, b):
                    check.fail(res, f'cost/{lc.split(".")[1]}/{name}', f'{lc} falls from {a!r} to {b!r} when {name} rises from {x1} to {x2} {ctx}')
    d = check.digest([F.fam_id(fam), extra, name, clause, [x for x, _, _ in obs]])
    res['states'].append(d)
    if len(obs) >= 2:
        res['nontrivial'].append(d)
    res['sample'] = {'ordered': {'clause': clause, 'family': fam, 'param': name, 'values': values, 'extra': extra}}
    return res


# ---------------------------------------------------------------- (d) function level: cost of one well vs depth
def wellcost_task(payload):
    res = check.new_result()

    def job(_):
        import logging
        from geophires_x import Model  # noqa  (import order: avoids the circular import of Economics)
        from geophires_x import Economics as E
        from geophires_x.OptionList import WellDrillingCostCorrelation as W

        class M:
            logger = logging.getLogger('vf')
        out = {}
        for corr in range(1, 18):
            w = W.from_int(corr)
            for adj, per_m in ((1.0, 1000.0), (2.5, 1846.0)):
                below = [(d, E.calculate_cost_of_one_vertical_well(M, float(d), w, per_m, 'x', adj)) for d in np.linspace(1, 499.9, 60)]
                inside = [(d, E.calculate_cost_of_one_vertical_well(M, float(d), w, per_m, 'x', adj)) for d in np.linspace(500, 7000, 200)]
                out[(corr, adj, per_m)] = (below, inside)
        return out
    tag = runner.fork_exec(job, None, timeout=600)
    if tag[0] != 'ok':
        res['infra'].append(f'function-level well cost sweep failed: {tag[1]} {tag[2] if len(tag) > 2 else ""}')
        return res
    n = 0
    for (corr, adj, per_m), (below, inside) in tag[1].items():
        for regime, seq in (('fallback_below_500m', below), ('within_500_7000m', inside)):
            n += len(seq)
            for (d1, c1), (d2, c2) in zip(seq, seq[1:]):
                if not leq(c1, c2):
                    check.fail(res, f'wellcost/func/corr{corr}/{regime}', f'correlation {corr} (adj {adj}, {per_m} $/m): cost falls from {c1!r} at {d1:.1f} m to {c2!r} at {d2:.1f} m')
                    break
        dd = check.digest([corr, adj, per_m])
        res['states'].append(dd)
        res['nontrivial'].append(dd)
    res['execs'] = n
    res['accepted'] = n
    res['steps'] = n
    res['sample'] = {'wellcost_function_level': {'correlations': 17, 'depths_per_regime': [60, 200]}}
    return res


def task(payload):
    return {'trock': trock_task, 'ordered': ordered_task, 'wellcost': wellcost_task}[payload['kind']](payload)


FACT = ['0', '0.5', '1', '2.5', '10']
COST_AL = {
    'Total Capital Cost': ['0', '5', '50', '400', '1000'], 'Total O&M Cost': ['0', '0.5', '3', '20', '100'],
    'Well Drilling and Completion Capital Cost': ['0', '2', '10', '200'], 'Injection Well Drilling and Completion Capital Cost': ['0', '2', '10', '200'],
    'Reservoir Stimulation Capital Cost': ['0', '1', '10', '1000'], 'Surface Plant Capital Cost': ['0', '10', '100', '1000'],
    'Field Gathering System Capital Cost': ['0', '1', '10', '100'], 'Exploration Capital Cost': ['0', '1', '10', '100'],
    'Wellfield O&M Cost': ['0', '0.5', '5', '100'], 'Surface Plant O&M Cost': ['0', '0.5', '5', '100'], 'Water Cost': ['0', '0.5', '5', '100'],
    'One-time Flat License Fees Etc': ['-5', '0', '5', '100'], 'Annual License Fees Etc': ['-0.5', '0', '0.5', '10'],
    'Electricity Rate': ['0', '0.05', '0.2', '1'], 'Surface Piping Length': ['0', '5', '50'],
    'All-in Vertical Drilling Costs': ['0', '500', '2000', '10000'],
}
for _k in ('Well Drilling and Completion Capital Cost Adjustment Factor', 'Injection Well Drilling and Completion Capital Cost Adjustment Factor',
           'Reservoir Stimulation Capital Cost Adjustment Factor', 'Surface Plant Capital Cost Adjustment Factor',
           'Field Gathering System Capital Cost Adjustment Factor', 'Exploration Capital Cost Adjustment Factor',
           'Wellfield O&M Cost Adjustment Factor', 'Surface Plant O&M Cost Adjustment Factor', 'Water Cost Adjustment Factor'):
    COST_AL[_k] = FACT


def plan(tier, seed):
    P = []
    for layout in LAYOUTS:
        nseg = layout[0]
        for tmax in ('150', '600'):
            for depth in ('1', '3', '10'):
                for gi in range(nseg):
                    P.append({'kind': 'trock', 'layout': layout, 'vary': gi, 'values': GR, 'depth': depth, 'tmax': tmax})
            P.append({'kind': 'trock', 'layout': layout, 'vary': 'depth', 'values': DP, 'depth': '3', 'tmax': tmax})
    P.append({'kind': 'wellcost'})
    shapes = [(5, 3, 2)] if tier == 'quick' else [(5, 3, 2), (3, 1, 1)]
    for s in shapes:
        for pair in ((1, 1), (2, 9)) if tier == 'quick' else ((1, 1), (2, 9), (1, 3), (31, 2), (2, 6)):
            fam4 = {'econ': 1, 'enduse': pair[0], 'plant': pair[1], 'res': 4, 'shape': list(s)}
            for extra in ({}, {'Ramey Production Wellbore Model': '0', 'Production Wellbore Temperature Drop': '5'}, {'Injection Temperature': '90'}):
                P.append({'kind': 'ordered', 'clause': 'drawdown', 'fam': fam4, 'param': 'Drawdown Parameter',
                          'values': ['0', '0.001', '0.005', '0.02', '0.05', '0.1', '0.2'], 'extra': extra})
            for r in F.RES_MODELS:
                fam = dict(fam4)
                fam['res'] = r
                for extra in ({}, {'Production Well Diameter': '12'}, {'Reservoir Depth': '5', 'Gradient 1': '40'}):
                    P.append({'kind': 'ordered', 'clause': 'flow', 'fam': fam, 'param': 'Production Flow Rate per Well',
                              'values': ['1', '5', '20', '50', '100', '250', '500'], 'extra': extra})
    for corr in range(1, 18):
        fam = {'econ': 1, 'enduse': 2, 'plant': 9, 'res': 4, 'shape': [3, 1, 1]}
        P.append({'kind': 'ordered', 'clause': 'welldepth', 'fam': fam, 'param': 'Reservoir Depth',
                  'values': ['0.2', '0.45', '0.499', '0.5', '1', '3', '6.9', '7'], 'extra': {'Well Drilling Cost Correlation': str(corr), 'Gradient 1': '60',
                                                                                          'Maximum Temperature': '500', 'Injection Temperature': '5', 'Ramey Production Wellbore Model': '0',
                                                                                          'Production Wellbore Temperature Drop': '0'}})
    pairs = F.PAIRS if tier == 'thorough' else ((1, 1), (1, 4), (2, 9), (2, 5), (2, 6), (2, 7), (31, 2), (42, 3), (51, 1), (52, 4))
    for em in F.ECON_MODELS:
        for pair in pairs:
            fam = {'econ': em, 'enduse': pair[0], 'plant': pair[1], 'res': 4, 'shape': [5, 3, 2]}
            al = dict(COST_AL)
            if pair[1] == 7:
                al['Peaking Fuel Cost Rate'] = ['0', '0.02', '0.2', '1']
                al['Total District Heating Network Cost'] = ['0', '5', '50']
            if pair[1] == 5:
                al['Absorption Chiller Capital Cost'] = ['0', '5', '50', '100']
                al['Absorption Chiller O&M Cost'] = ['0', '1', '10']
            if pair[1] == 6:
                al['Heat Pump Capital Cost'] = ['0', '5', '50', '100']
            for name, vals in al.items():
                if tier == 'quick' and em != 1 and name.endswith('Adjustment Factor') and pair[1] not in (1, 9):
                    continue
                P.append({'kind': 'ordered', 'clause': 'cost', 'fam': fam, 'param': name, 'values': vals, 'extra': {}})
                if tier == 'thorough' or (em == 2 and pair in ((1, 1), (31, 2))):
                    P.append({'kind': 'ordered', 'clause': 'cost', 'fam': fam, 'param': name, 'values': vals, 'extra': {'Maximum Drawdown': '0.05'}})
    # closed-loop (SBT) economics: same cost monotonicity
    for fam in F.sbt_grid(econs=(1, 2, 3) if tier == 'thorough' else (3,), configs=(5,), pairs=((1, 2), (2, 9), (31, 1))):
        for name, vals in COST_AL.items():
            P.append({'kind': 'ordered', 'clause': 'cost', 'fam': fam, 'param': name, 'values': vals, 'extra': {}})
        for name, vals in (('All-in Nonvertical Drilling Costs', ['300', '700', '1300', '4000']), ('All-in Vertical Drilling Costs', ['300', '1000', '4000'])):
            P.append({'kind': 'ordered', 'clause': 'cost', 'fam': fam, 'param': name, 'values': vals, 'extra': {'Well Drilling Cost Correlation': '5'}})
    return P


def run(tier, seed, budget=None):
    return e1.run_generic(
        sys.modules[__name__], PID, tier, seed, budget,
        rule=('all ordered pairs of an ordered alphabet of the varied parameter, other parameters fixed: (a) bottom-hole temperature vs each gradient '
              '(8 values) and vs depth (9 values) for 1..4-segment layouts, Tmax cap active and inactive, reservoir level; (b) model-4 reservoir '
              'temperature at every time step vs drawdown rate (7 values), redrilling disabled; (c) initial production temperature vs flow per well '
              '(7 values), Ramey model, reservoir models 1-4; (d) cost of one well vs depth: real cost function for 17 correlations x 260 depths per '
              'regime and end to end for 8 depths; (e) NPV non-increasing / levelized costs non-decreasing in each of ~25 cost inputs and adjustment '
              'factors (4-5 values each) for 3 economic models x plant pairs. Distinct by (clause, family, parameter)'),
        assumptions=['clause (b) is claimed with redrilling disabled, as the property\'s "all else equal" requires',
                     'levelized-cost monotonicity is evaluated only where the corresponding yearly energy is positive in every year of both runs'])
