"""
C14 — Monte-Carlo rows are reproducible and the statistics describe them (fault enumeration).
E3: real main() under the controlled pool with SCRIPTED samples per iteration: all 2^K subsets of out-of-range
    (failing) iterations x all assignments to <=W workers, for GEOPHIRES electricity, heat and HIP-RA-X bases and
    output lists with a plain / duplicated / absent label; every row is re-simulated independently.
E4: all interleavings (preemption-bounded) of concurrent appends with rows of different lengths.
"""
import itertools
import math
import re
import statistics
import sys

from vf.core import e1, runner, check, mv
from vf.engines import poolx
from vf.checks import mc_common as MC

PID = 'C14'

CASES = {
    'elec': {'inputs': [['Gradient 1', 'uniform', 40, 60], ['Utilization Factor', 'normal', 0.8, 0.05]],
             'ok': lambda k: [41.0 + 3.5 * k, 0.75 + 0.03 * k], 'bad_value': 900.0,
             'outputs': {'plain': ['Average Net Electricity Production', 'Electricity breakeven price', 'Total capital costs'],
                         'dup': ['Average Net Electricity Production', 'Flowrate per production well', 'Electricity breakeven price'],
                         'absent': ['Average Net Electricity Production', 'Direct-Use heat breakeven price (LCOH)', 'Electricity breakeven price']}},
    'heat': {'inputs': [['Gradient 1', 'triangular', 35, 45, 55], ['End-Use Efficiency Factor', 'uniform', 0.7, 0.95]],
             'ok': lambda k: [37.0 + 2.5 * k, 0.72 + 0.04 * k], 'bad_value': -3.0,
             'outputs': {'plain': ['Average Direct-Use Heat Production', 'Direct-Use heat breakeven price (LCOH)', 'Total capital costs'],
                         'dup': ['Average Direct-Use Heat Production', 'Flowrate per production well', 'Direct-Use heat breakeven price (LCOH)'],
                         'absent': ['Average Direct-Use Heat Production', 'Electricity breakeven price', 'Direct-Use heat breakeven price (LCOH)']}},
    'hip': {'inputs': [['Reservoir Temperature', 'normal', 250, 10], ['Reservoir Area', 'lognormal', 4.0, 0.1]],
            'ok': lambda k: [230.0 + 7.0 * k, 50.0 + 4.0 * k], 'bad_value': 5000.0,
            'outputs': {'plain': ['Producible Electricity (reservoir)', 'Stored Heat (reservoir)', 'Reservoir Volume (reservoir)'],
                        'absent': ['Producible Electricity (reservoir)', 'No Such Output', 'Stored Heat (reservoir)']}},
}


def label_tokens(report_text, label):
    """independent extraction: value tokens of all lines whose label (text before the colon) is exactly `label`."""
    out = []
    for line in report_text.splitlines():
        m = re.match(r'^\s*(.*?):\s+(\S+)', line)
        if m and m.group(1).strip() == label:
            out.append(m.group(2))
    return out


def resimulate(arg):
    """child: run base + recorded samples through the real client; return report text."""
    base_key, samples = arg
    code, base_lines = MC.BASES[base_key]
    lines = list(base_lines) + [f'{k}, {v}' for k, v in samples]
    from vf.core import sim
    if base_key == 'hip':
        from hip_ra_x import HipRaXClient
        from hip_ra import HipRaInputParameters
        p = sim.write_input(lines)
        params = HipRaInputParameters(str(p))
        r = HipRaXClient().get_hip_ra_result(params)
        with open(params.output_file_path) as f:
            return f.read()
    o = sim.simulate(lines, want=('report',))
    if o['status'] != 'accepted':
        raise RuntimeError('re-simulation failed: ' + str(o['exc']))
    return o['report']


def e3_task(payload):
    res = check.new_result()
    base_key, variant, K = payload['base'], payload['variant'], payload['K']
    case = CASES[base_key]
    outputs = case['outputs'][variant]
    resim_cache = {}
    rows_by_subset = {}
    for bad in payload['subsets']:
        for assignment in payload['assignments']:
            spec = {'base': base_key, 'inputs': case['inputs'], 'outputs': outputs, 'K': K, 'assignment': assignment, 'seed': 0,
                    'cpu_count': payload.get('cpu_count'), 'relative_out': payload.get('relative_out', False),
                    'script': {'ok': [case['ok'](k) for k in range(K)], 'bad': list(bad), 'bad_value': case['bad_value']}}
            tag = runner.fork_exec(MC.mc_main_execution, spec, timeout=900)
            res['execs'] += 1
            res['steps'] += K
            if tag[0] != 'ok':
                res['infra'].append(f'MC execution failed: {tag[1]} {tag[2] if len(tag) > 2 else ""}')
                continue
            r = tag[1]
            res['accepted'] += 1
            if r.get('stray'):
                check.fail(res, 'rows/astray', f'[{base_key}/{variant} K={K} failing={list(bad)} assignment={r.get("assignment_used")}] relative result-file name: files appeared elsewhere in the source tree: {r["stray"]}')
            ctx = f'[{base_key}/{variant}{" relative result-file name" if payload.get("relative_out") else ""} K={K} failing={list(bad)} assignment={r.get("assignment_used")} cpu_count={payload.get("cpu_count")} work items={r.get("chunks")}]'
            ok_tasks = [o for o in r['outcomes'] if o[2] == 'ok']
            exp_ok = [k for k in range(K) if k not in bad]
            if sorted(o[0] for o in ok_tasks) != exp_ok:
                check.fail(res, 'fault/wrong-iterations-failed', f'{ctx} iterations that succeeded: {sorted(o[0] for o in ok_tasks)}, scripted to succeed: {exp_ok}; '
                           f'errors: {[o[3] for o in r["outcomes"] if o[2] != "ok"][:2]}')
            if r['file'] is None:
                check.fail(res, 'mc/no-result-file', f'{ctx} no result file ({r["main_exc"]})')
                continue
            header, rows, stats = MC.parse_result_file(r['file'])
            exp_header = outputs + [i[0] for i in case['inputs']]
            if header != exp_header:
                check.fail(res, 'header/wrong', f'{ctx} header {header} expected {exp_header}')
            if len(rows) != len(exp_ok):
                check.fail(res, 'rows/count', f'{ctx} {len(rows)} rows for {len(exp_ok)} successful iterations')
            if not exp_ok:
                continue       # every iteration failed: main() reports that no results were generated
            shifted = any(len(toks) != len(outputs) for toks, _i, _r in rows)
            sfx = '/after-column-shift' if shifted else ''
            if not shifted and len(rows) == 1 and r['main_exc'] and r['main_exc'].startswith('IndexError'):
                sfx = '/histogram-of-single-huge-value'
            if r['main_exc']:
                check.fail(res, 'mc/main-raised' + sfx, f'{ctx} main() raised {r["main_exc"]}')
            # every row is reproducible, column by column in header order
            numeric_rows = []
            row_keyed = {}
            for toks, ins, raw in rows:
                samples = tuple((i[0], ins.get(i[0])) for i in case['inputs'])
                if any(v is None for _, v in samples):
                    check.fail(res, 'rows/sample-missing', f'{ctx} row lacks a recorded sample: {raw!r}')
                    continue
                if samples not in resim_cache:
                    t2 = runner.fork_exec(resimulate, (base_key, samples), timeout=600)
                    res['execs'] += 1
                    if t2[0] != 'ok':
                        check.fail(res, 'rows/not-reproducible/resimulation-fails', f'{ctx} re-simulating the recorded samples {samples} fails: {t2[1]}')
                        continue
                    resim_cache[samples] = t2[1]
                report = resim_cache[samples]
                expected = []
                shape_problem = None
                for o in outputs:
                    found = label_tokens(report, o)
                    if len(found) == 1:
                        expected.append(found[0])
                    else:
                        expected.append(None)
                        shape_problem = (o, len(found))
                if len(toks) != len(outputs):
                    o, n = shape_problem if shape_problem else ('?', -1)
                    kind = 'absent-output' if n == 0 else ('duplicate-output' if n > 1 else 'unknown')
                    check.fail(res, f'rows/column-shift/{kind}', f'{ctx} row has {len(toks)} output columns for {len(outputs)} header columns '
                               f'(output {o!r} occurs {n} times in the report): row {raw!r}')
                else:
                    for col, (t, e) in enumerate(zip(toks, expected)):
                        if e is not None and t != e:
                            check.fail(res, 'rows/not-reproducible/value', f'{ctx} column {col} ({outputs[col]}): row has {t!r}, re-simulation prints {e!r}')
                            break
                row_keyed[samples] = raw
                try:
                    numeric_rows.append([float(t) for t in toks])
                except ValueError:
                    pass
            # a failing iteration affects only its own row: rows of the others are identical in every fail subset / assignment
            for samples, raw in row_keyed.items():
                prev = rows_by_subset.setdefault(samples, raw)
                if prev != raw:
                    check.fail(res, 'fault/row-depends-on-other-iterations', f'{ctx} row for samples {samples} is {raw!r} here but {prev!r} in another fail subset/assignment')
            # statistics describe the rows
            if r['json'] is None:
                check.fail(res, 'stats/no-json' + sfx, f'{ctx} no JSON summary')
            elif numeric_rows and all(len(x) == len(numeric_rows[0]) for x in numeric_rows):
                ncols = len(numeric_rows[0])
                names = outputs[:ncols] if ncols == len(outputs) else None
                if names:
                    for ci, o in enumerate(names):
                        col = [x[ci] for x in numeric_rows]
                        exp = {'minimum': min(col), 'maximum': max(col), 'median': statistics.median(col), 'average': math.fsum(col) / len(col),
                               'mean': math.fsum(col) / len(col), 'standard deviation': statistics.pstdev(col)}
                        js = r['json'].get(o)
                        if js is None:
                            check.fail(res, 'stats/json-missing-output', f'{ctx} JSON has no entry for {o}')
                            continue
                        for k, e in exp.items():
                            if not mv.close(js.get(k, math.nan), e, 1e-9, 1e-12):
                                check.fail(res, f'stats/{k}', f'{ctx} {o}: JSON {k} = {js.get(k)!r}, recomputed from the rows {e!r}')
                            txt = stats.get(o, {}).get(k)
                            if txt is None or txt != f'{js.get(k, math.nan):,.2f}':
                                check.fail(res, f'stats/text-vs-json/{k}', f'{ctx} {o}: text block shows {txt!r}, JSON value formats to {js.get(k, math.nan):,.2f}')
            d = check.digest([base_key, variant, K, list(bad), r.get('assignment_used'), payload.get('relative_out', False)])
            res['states'].append(d)
            if bad and max(r.get('assignment_used') or [0]) > 0:
                res['nontrivial'].append(d)
    res['sample'] = {'fault_enumeration': {'base': base_key, 'outputs': outputs, 'K': K, 'failing_subsets': [list(b) for b in payload['subsets']][:4],
                                           'assignments': payload['assignments'][:4]}}
    return res


def task(payload):
    if payload['kind'] == 'e3':
        return e3_task(payload)
    return MC.ilv_task(payload)


def plan(tier, seed):
    runner.preload()
    P = []
    K, W = (3, 2) if tier == 'quick' else (4, 3)
    assignments = poolx.set_partitions(K, W)
    subsets = [tuple(s) for n in range(K + 1) for s in itertools.combinations(range(K), n)]
    for base_key, case in CASES.items():
        for variant in case['outputs']:
            for sub in subsets:
                P.append({'kind': 'e3', 'base': base_key, 'variant': variant, 'K': K, 'subsets': [sub], 'assignments': assignments})
    # the result file named RELATIVELY in the settings file (resolved against the Monte-Carlo package directory, a private view of it here):
    # every fail subset x assignment again, for the GEOPHIRES base whose runs change directory
    for sub in subsets:
        P.append({'kind': 'e3', 'base': 'elec', 'variant': 'plain', 'K': K, 'subsets': [sub], 'assignments': assignments, 'relative_out': True})
    # long runs as seen by the pool: K iterations on a machine that reports 1 CPU (environment answer), at most one failing
    # iteration (deviation bound 1; thorough 2); work items are whatever the driver hands to map() - the assignments enumerate those
    KL = 8 if tier == 'quick' else 12
    counts = sorted({KL // d for d in (1, 2, 3, 4)} - {0})
    parts = {n: poolx.set_partitions(n, 2) for n in counts}
    nassign = 6 if tier == 'quick' else 16
    assigns = []
    for j in range(nassign):
        # j-th assignment for every possible number of work items: spread over the partition list (first, last, and evenly between)
        assigns.append({str(n): parts[n][(j * (len(parts[n]) - 1)) // max(1, nassign - 1)] for n in counts})
    subs = [()] + [(i,) for i in range(KL)]
    if tier == 'thorough':
        subs += [tuple(c) for c in itertools.combinations(range(KL), 2)]
    for i in range(0, len(subs), 3):
        P.append({'kind': 'e3', 'base': 'hip', 'variant': 'plain', 'K': KL, 'subsets': subs[i:i + 3], 'assignments': assigns, 'cpu_count': 1})
    # runs long enough for an iteration-count-dependent batching of the work (K // 16 >= 2): every position of a single failing iteration
    for KB in ((33,) if tier == 'quick' else (33, 64)):
        alt = {str(n): [i % 2 for i in range(n)] for n in range(1, KB + 1)}
        subs = [()] + [(i,) for i in range(KB)]
        for i in range(0, len(subs), 6):
            P.append({'kind': 'e3', 'base': 'hip', 'variant': 'plain', 'K': KB, 'subsets': subs[i:i + 6], 'assignments': [{}, alt], 'cpu_count': 4})
    ilv_specs = [({'K': 2, 'n_outputs': 3, 'value_width': {'1': 40}}, 3)] if tier == 'quick' else \
        [({'K': 2, 'n_outputs': 3, 'value_width': {'1': 40}}, 6), ({'K': 2, 'n_outputs': 400, 'value_width': {'0': 30}}, 4),
         ({'K': 3, 'n_outputs': 3, 'value_width': {'2': 40}}, 2)]
    for spec, bound in ilv_specs:
        tagr = runner.fork_exec(lambda _: MC.ilv_roots(spec, bound), None, timeout=600)
        if tagr[0] != 'ok':
            raise RuntimeError(f'cannot compute interleaving roots: {tagr[1]} {tagr[2] if len(tagr) > 2 else ""}')
        P.append({'kind': 'ilv', 'spec': spec, 'bound': bound, 'root': [], 'root_only': True})
        for root in tagr[1]:
            P.append({'kind': 'ilv', 'spec': spec, 'bound': bound, 'root': root})
    return P


def run(tier, seed, budget=None):
    return e1.run_generic(
        sys.modules[__name__], PID, tier, seed, budget, level='fault_enumeration',
        rule=('E3 fault enumeration: bases {GEOPHIRES electricity, GEOPHIRES heat, HIP-RA-X} x output lists {found once, one label found twice, '
              'one label absent} x K scripted iterations (quick 3, thorough 4) x ALL 2^K subsets of out-of-range iterations x ALL assignments to '
              '<=W workers (quick 2, thorough 3), the electricity base also with a relative result-file name in the settings file; every surviving row re-simulated through the real client and compared token by token in header '
              'order; statistics recomputed from the rows; E4: all interleavings of two (thorough: three) concurrent appends with rows of '
              'different lengths (thorough: one > 8 KiB, up to 4) up to 3 (6) preemptions; long runs: K=8 (12) iterations with the pool seeing 1 CPU (environment answer), '
              'at most 1 (2) failing iterations, assignments of whatever work items the driver hands to map(); K=33 (thorough also 64) with every position of one failing iteration. Non-trivial = at least one failing iteration and more than '
              'one worker; distinct by (base, outputs, K, failing subset, assignment)'),
        assumptions=['samples are scripted environment answers (distinct in-range value per iteration ordinal; one out-of-range value for failing iterations)',
                     'a single write(2) of one row (< 8 KiB) to an O_APPEND regular file is atomic',
                     'E3 serialises iterations; interleavings of the append are explored separately by E4'])
