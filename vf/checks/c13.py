"""
C13 — Monte-Carlo iterations are independent draws from the requested distributions.
E3: the real main() under the controlled pool for every assignment of iterations to workers (set partitions);
E4: row count under every interleaving of the row-append protocol up to a preemption bound;
plus free-running real-pool runs whose outcome structure must be among the enumerated ones.
"""
import math
import sys

from vf.core import e1, runner, check
from vf.engines import poolx
from vf.checks import mc_common as MC

PID = 'C13'

SETTINGS = {
    'normal': [['Gradient 1', 'normal', 50, 3]],
    'uniform': [['Gradient 1', 'uniform', 40, 60]],
    'triangular': [['Gradient 1', 'triangular', 40, 45, 60]],
    'lognormal': [['Gradient 1', 'lognormal', 3.8, 0.1]],
    'binomial': [['Number of Production Wells', 'binomial', 4, 0.5], ['Gradient 1', 'uniform', 40, 60]],
    # a legal distribution on a very small scale (a value re-formatted with a fixed number of decimals leaves the support)
    'tiny': [['Water Loss Fraction', 'uniform', 1e-8, 9e-8], ['Gradient 1', 'uniform', 40, 60]],
    'mix': [['Gradient 1', 'normal', 50, 3], ['Utilization Factor', 'uniform', 0.7, 0.95], ['Ambient Temperature', 'triangular', 5, 15, 25],
            ['Reservoir Depth', 'lognormal', 1.0, 0.05], ['Number of Injection Wells', 'binomial', 3, 0.6]],
}
# '#' in place of the mean / mode: "then value from the Input_file as the mode/mean" (main() docstring)
HASH_SETTINGS = {
    'hash-normal': ('elec', [['Gradient 1', 'normal', '#', 3]]),
    'hash-triangular': ('elec', [['Reservoir Depth', 'triangular', 2.5, '#', 3.5], ['Gradient 1', 'uniform', 40, 60]]),
    'hash-prefix': ('elecvol', [['Reservoir Volume', 'normal', '#', 1e7], ['Gradient 1', 'uniform', 40, 60]]),
}
OUTPUTS = ['Average Net Electricity Production', 'Electricity breakeven price']


def resolve_inputs(spec):
    """the settings with every '#' replaced by the value the base input gives to that parameter (exact name)"""
    base = {}
    for l in MC.BASES[spec['base']][1]:
        n, _, v = l.partition(',')
        base.setdefault(n.strip(), v.split(',')[0].strip())
    out = []
    for i in spec['inputs']:
        out.append([i[0], i[1]] + [float(base[i[0]]) if str(x).strip() == '#' else x for x in i[2:]])
    return out


def in_support(dist, params, x):
    p = [float(v) for v in params]
    if dist == 'uniform':
        return p[0] <= x <= p[1]
    if dist == 'triangular':
        return p[0] <= x <= p[2]
    if dist == 'lognormal':
        return x > 0
    if dist == 'binomial':
        return float(x).is_integer() and 0 <= x <= p[0]
    if dist == 'normal':
        return math.isfinite(x)
    return False


def judge(spec, r, res):
    """oracle for one main() execution."""
    K = spec['K']
    inputs = resolve_inputs(spec)
    ok_tasks = [o for o in r['outcomes'] if o[2] == 'ok'] if not spec.get('real_pool') else None
    if r['file'] is None:
        check.fail(res, 'mc/no-result-file', f'no result file; main: {r["main_exc"]}')
        return None
    header, rows, stats = MC.parse_result_file(r['file'])
    if r['main_exc'] and not (ok_tasks is not None and not ok_tasks):
        check.fail(res, 'mc/main-raised', f'main() raised {r["main_exc"]} although {len(ok_tasks) if ok_tasks is not None else "?"} iterations succeeded')
    # (d) one row per successfully simulated iteration
    if ok_tasks is not None and len(rows) != len(ok_tasks):
        check.fail(res, 'rows/count', f'{len(rows)} rows for {len(ok_tasks)} successful iterations (assignment {spec["assignment"]})')
    vectors = []
    for toks, ins, raw in rows:
        vec = []
        for i in inputs:
            name, dist, params = i[0], i[1], i[2:]
            if name not in ins:
                check.fail(res, f'rows/sample-missing/{dist}', f'row does not record a sample for {name}: {raw!r}')
                continue
            x = float(ins[name])
            # (b) support
            if not in_support(dist, params, x):
                check.fail(res, f'support/{dist}', f'sample {x!r} for {name} outside the support of {dist}{tuple(params)}')
            if dist != 'binomial':
                vec.append(x)
        vectors.append(tuple(vec))
    # (a) sampled vectors of the continuous inputs are pairwise distinct
    if len(set(vectors)) != len(vectors):
        nd = len(set(vectors))
        blocks = sorted(len([1 for a in (spec.get('assignment') or []) if a == w]) for w in set(spec.get('assignment') or []))
        check.fail(res, 'draws/replicated', f'{len(vectors)} iterations produced only {nd} distinct sample vectors '
                   f'(assignment of iterations to workers {spec.get("assignment")}, block sizes {blocks}, settings {spec["tag"]})')
    # (a') the same holds input by input: a value replicated in one column only (one distribution drawn from a generator the workers share)
    # leaves the vectors distinct
    for ci, i in enumerate([x for x in inputs if x[1] != 'binomial']):
        col = [v[ci] for v in vectors if len(v) > ci]
        if len(set(col)) != len(col):
            check.fail(res, f'draws/replicated_input/{i[1]}', f'{len(col)} iterations produced only {len(set(col))} distinct samples of {i[0]} ({i[1]}) '
                       f'(assignment {spec.get("assignment")}, settings {spec["tag"]})')
    # (c) call conformance: exactly the requested distribution and parameters, once per input per iteration
    if ok_tasks is not None:
        want = [(i[1], tuple(float(x) for x in i[2:])) for i in inputs]
        for o in r['outcomes']:
            draws = [d for d in o[4] if d[0] not in ('seed', 'default_rng', 'RandomState', 'Generator')]
            if [(d[0], tuple(d[1])) for d in draws] != want:
                check.fail(res, 'calls/nonconforming', f'iteration {o[0]} drew {[(d[0], d[1]) for d in draws]}, requested {want}')
        # (c') the value an iteration uses and records is the value it drew (not a rounded or re-formatted one): every drawn value of a
        # successful iteration appears, for its input, in exactly one row
        recorded = {}
        for toks, ins, raw in rows:
            for i in inputs:
                if i[0] in ins:
                    recorded.setdefault(i[0], []).append(float(ins[i[0]]))
        for o in r['outcomes']:
            if o[2] != 'ok':
                continue
            draws = [d for d in o[4] if d[0] not in ('seed', 'default_rng', 'RandomState', 'Generator')]
            for i, d in zip(inputs, draws):
                if len(d) > 2 and d[2] is not None and d[2] not in recorded.get(i[0], []):
                    near = min(recorded.get(i[0], [math.nan]), key=lambda x: abs(x - d[2]))
                    check.fail(res, f'draws/recorded_differs/{i[1]}', f'iteration {o[0]} drew {d[2]!r} for {i[0]} ({i[1]}); no row records that value (nearest recorded {near!r})')
                    break
    return {'rows': len(rows), 'distinct': len(set(vectors)), 'K': K}


def e3_task(payload):
    res = check.new_result()
    structures = []
    for spec in payload['specs']:
        tag = runner.fork_exec(MC.mc_main_execution, spec, timeout=900)
        res['execs'] += 1
        res['steps'] += spec['K']
        if tag[0] != 'ok':
            res['infra'].append(f'MC execution failed: {tag[1]} {tag[2] if len(tag) > 2 else ""} spec={spec}')
            continue
        res['accepted'] += 1
        st = judge(spec, tag[1], res)
        if st:
            structures.append(st)
            d = check.digest([spec['tag'], spec['K'], spec.get('assignment'), spec.get('real_pool', False), [b['K'] for b in spec.get('before') or []]])
            res['states'].append(d)
            if spec.get('assignment') and max(spec['assignment']) > 0 and len(spec['assignment']) > len(set(spec['assignment'])):
                res['nontrivial'].append(d)      # several workers AND several tasks on one worker
            elif spec.get('assignment') and max(spec['assignment']) > 0:
                res['nontrivial'].append(d)
            check.note(res, 'real_pool_structures' if spec.get('real_pool') else 'controlled_pool_structures', f"K={st['K']} rows={st['rows']} distinct={st['distinct']}")
    if payload['specs']:
        s0 = payload['specs'][0]
        res['sample'] = {'monte_carlo_main': {'settings': s0['tag'], 'inputs': s0['inputs'], 'K': s0['K'], 'assignment': s0.get('assignment'),
                                              'real_pool': s0.get('real_pool', False)}}
    return res


def req_task(payload):
    """two requests that name no result file, made and served in every admissible order, within one clock instant or not."""
    res = check.new_result()
    for spec in payload['specs']:
        tag = runner.fork_exec(MC.mc_client_sequence, spec, timeout=900)
        res['execs'] += 1
        res['steps'] += len(spec['order'])
        if tag[0] != 'ok':
            res['infra'].append(f'request sequence failed: {tag[1]} {tag[2] if len(tag) > 2 else ""} spec={spec}')
            continue
        r = tag[1]
        res['accepted'] += 1
        ctx = f'[order {spec["order"]}, clock {spec["clock"]}, assignment {spec["assignment"]}]'
        bad_ops = [o for o in r['ops'] if o[1] != 'ok']
        if bad_ops:
            check.fail(res, 'request/operation_failed', f'{ctx} {bad_ops[:2]}')
        if len(set(r['path'].values())) != len(r['path']):
            check.fail(res, 'request/shared_result_file', f'{ctx} two requests that name no result file were given the same one: {r["path"]}')
        for who, text in r['file'].items():
            if text is None:
                check.fail(res, 'request/no_result_file', f'{ctx} request {who}: no result file at {r["path"][who]} after the sequence')
                continue
            header, rows, stats = MC.parse_result_file(text)
            if len(rows) != spec['K']:
                check.fail(res, 'request/rows_count', f'{ctx} request {who}: {len(rows)} rows for {spec["K"]} successful iterations')
            lo, hi = MC.REQ_SUPPORT[who]
            for toks, ins, raw in rows:
                x = float(ins.get('Gradient 1', 'nan'))
                if not (lo <= x <= hi):
                    check.fail(res, 'request/support', f'{ctx} request {who}: its result file records the sample {x!r}, outside uniform({lo}, {hi})')
                    break
        d = check.digest(['req', spec])
        res['states'].append(d)
        res['nontrivial'].append(d)
    res['sample'] = {'monte_carlo_requests_without_result_file': payload['specs'][0] if payload['specs'] else None}
    return res


REQ_ORDERS = [o for o in __import__('itertools').permutations(['newA', 'newB', 'runA', 'runB'])
              if o.index('newA') < o.index('runA') and o.index('newB') < o.index('runB')]


def task(payload):
    if payload['kind'] == 'e3':
        return e3_task(payload)
    if payload['kind'] == 'req':
        return req_task(payload)
    return MC.ilv_task(payload)


def plan(tier, seed):
    runner.preload()
    P = []
    Ks, W = ((3, 4), 3) if tier == 'quick' else ((4, 5, 6), 4)
    for tag, inputs in SETTINGS.items():
        for K in Ks:
            if tier == 'thorough' and K == 6 and tag not in ('mix', 'uniform'):
                continue
            parts = poolx.set_partitions(K, W)
            specs = [{'tag': tag, 'base': 'elec', 'inputs': inputs, 'outputs': OUTPUTS, 'K': K, 'assignment': a, 'seed': seed} for a in parts]
            for i in range(0, len(specs), 4):
                P.append({'kind': 'e3', 'specs': specs[i:i + 4]})
    for tag, (base, inputs) in HASH_SETTINGS.items():
        K = Ks[0]
        specs = [{'tag': tag, 'base': base, 'inputs': inputs, 'outputs': OUTPUTS, 'K': K, 'assignment': a, 'seed': seed} for a in poolx.set_partitions(K, 2)]
        for i in range(0, len(specs), 4):
            P.append({'kind': 'e3', 'specs': specs[i:i + 4]})
    # a process that has already served another Monte-Carlo request (1 or 2 iterations) before the one that is judged
    for pk in (1, 2):
        prior = {'tag': 'prior', 'base': 'elec', 'inputs': SETTINGS['uniform'], 'outputs': OUTPUTS, 'K': pk, 'assignment': [0] * pk, 'seed': seed}
        K = Ks[-1]
        specs = [{'tag': 'mix', 'base': 'elec', 'inputs': SETTINGS['mix'], 'outputs': OUTPUTS, 'K': K, 'assignment': a, 'seed': seed, 'before': [prior]}
                 for a in poolx.set_partitions(K, W)]
        for i in range(0, len(specs), 4):
            P.append({'kind': 'e3', 'specs': specs[i:i + 4]})
    # requests that leave the result file to the library: all admissible orders of {make A, make B, serve A, serve B} x clock {one instant, real}
    K = 2
    rspecs = [{'order': list(o), 'clock': c, 'K': K, 'assignment': a, 'seed': seed} for o in REQ_ORDERS for c in ('frozen', 'real')
              for a in ([0, 0], [0, 1])]
    for i in range(0, len(rspecs), 3):
        P.append({'kind': 'req', 'specs': rspecs[i:i + 3]})
    # conformance of the controlled pool: free-running real pool
    for rep in range(2 if tier == 'quick' else 5):
        P.append({'kind': 'e3', 'specs': [{'tag': 'mix', 'base': 'elec', 'inputs': SETTINGS['mix'], 'outputs': OUTPUTS, 'K': 6,
                                           'assignment': None, 'real_pool': True, 'seed': seed + rep}]})
    # E4: row count under contention
    ilv_specs = [({'K': 2}, 3), ({'K': 2, 'fail': [1]}, 3)] if tier == 'quick' else \
        [({'K': 2}, 6), ({'K': 2, 'fail': [1]}, 6), ({'K': 3}, 2), ({'K': 3, 'fail': [0]}, 2)]
    for spec, bound in ilv_specs:
        tagr = runner.fork_exec(lambda _: MC.ilv_roots(spec, bound), None, timeout=600)
        if tagr[0] != 'ok':
            raise RuntimeError(f'cannot compute interleaving roots: {tagr[1]} {tagr[2] if len(tagr) > 2 else ""}')
        P.append({'kind': 'ilv', 'spec': spec, 'bound': bound, 'root': [], 'root_only': True})
        for root in tagr[1]:
            P.append({'kind': 'ilv', 'spec': spec, 'bound': bound, 'root': root})
    return P


def run(tier, seed, budget=None):
    return e1.run_generic(
        sys.modules[__name__], PID, tier, seed, budget,
        rule=('E3: real Monte-Carlo main() under a fork-faithful controlled pool for every settings file in {normal, uniform, triangular, '
              'lognormal, binomial(+uniform), a 1e-8-wide uniform, mix of five, three with "#" for the mean/mode} x K iterations x ALL assignments of iterations to <=W workers (set partitions; '
              'quick K in {3,4}, W=3; thorough K in {4,5,6}, W=4), also in a process that already served a 1- or 2-iteration request; E4: all interleavings of the real pylocker row-append protocol for 2 '
              'workers up to 3 preemptions (thorough: 6, and 3 workers up to 2), with and without a failing iteration; plus free-running real '
              'ProcessPoolExecutor runs. Non-trivial = assignment that uses several workers / interleaving with >=1 preemption; states = '
              'distinct (settings, K, assignment) and (spec, sub-tree, outcome)'),
        assumptions=['independence is decided through its checkable consequences (distinctness, support, non-replication across every assignment, '
                     'call-level conformance), not by statistical tests',
                     'a single write(2) of one row to an O_APPEND regular file is atomic (local file systems)',
                     'process exit of a pool worker is os._exit: buffered data of handles still open is lost (confirmed with real processes, demos/)',
                     'after the per-iteration re-seeding fix draws come from OS entropy; real-pool conformance is therefore on outcome structure '
                     '(rows, distinct vectors), not on values'])
