BASELINE = ("cd /repo && env -u GEOPHIRES_X_VERIF /venv/bin/python -m pytest -ra -q -p no:cacheprovider --timeout=900 "
            "--continue-on-collection-errors --junitxml=/var/tmp/vf-baseline.junit.xml")

ALL = ['C%02d' % i for i in range(1, 21)]

CHECKS = {
    'C02': dict(
        engine='xplore',
        technique='bounded exhaustive input-space exploration of the real pipeline (deviation-bounded enumeration) against an independent energy-balance reference',
        category='exploration',
        text=('Every execution of the real pipeline in the complete product of 32 end-use/plant pairs x 4 reservoir models x '
              'shapes, plus every single-parameter deviation over small alphabets (pairs in the thorough tier), is checked at '
              'every time step and every year against an independent reference for the balances. Coverage statement, not a '
              'sample; nothing is claimed between alphabet points.'),
        design_ref='DESIGN.md section 4 C02',
        note=('Trusts: the observation hook hands over the model that is later printed; reference integrator restates the '
              'pinned last-slice rule; fork-per-execution isolation.')),
    'C01': dict(
        engine='xplore',
        technique='bounded exhaustive input-space exploration of the real pipeline against an independent levelized-cost reference (all economic model x end-use x plant x reservoir combinations, deviation-bounded alphabets)',
        category='exploration',
        text=('Every execution in the complete product 3 economic models x 32 end-use/plant pairs x 4 reservoir models x shapes, plus all single deviations (pairs in thorough) over rate/cost alphabets and structural deviations (add-ons, both extensions together, redrilling, fixed totals, carbon, plant type left out), and the closed-loop (SBT) family, is compared at 1e-9 with an independent implementation of the branch table and with the printed report lines.'),
        design_ref='DESIGN.md section 4 C01',
        note='Trusts the branch table restated in vf/oracles/econ_ref.py as the documented definition. For direct use the pumping and heat-pump electricity costs are derived from the yearly energy series and the electricity rate; the district-heating peaking-fuel average and the cogeneration pumping cost are taken as reported.'),
    'C03': dict(
        engine='xplore',
        technique='bounded exhaustive input-space exploration (all override/adjustment/incentive deviations, pairs over interaction sets, correlation x depth grid) against an independent cost roll-up',
        category='exploration',
        text=('Roll-up identities for capital and O&M totals, exact use of user-fixed figures (alone, with their adjustment factor, with a user total), ITC/grant/fee arithmetic, per-well cost against an own copy of the published cost curves, lateral cost computed from the inputs (standard and SBT well fields), on every execution of the enumerated space.'),
        design_ref='DESIGN.md section 4 C03',
        note='Own copy of the drilling-cost coefficients; user-fixed status read from the generated input, not from model flags.'),
    'C04': dict(
        engine='xplore',
        technique='bounded exhaustive input-space exploration (construction years x lifetimes x price/PTC/carbon/add-on deviations) against an independent cash-flow assembly and metric definitions',
        category='exploration',
        text=('Cash-flow series, cumulative sum, NPV (both conventions), IRR residual, VIR, MOIC and payback window recomputed '
              'independently for every execution, including the add-on project series; report N/A rule checked on the text.'),
        design_ref='DESIGN.md section 4 C04',
        note='IRR interpreted in the labelled unit (percent).'),
    'C05': dict(
        engine='xplore',
        technique='bounded exhaustive exploration: complete product of layer layouts at reservoir level (real Model/read/Calculate) plus end-to-end reservoir-model x drawdown alphabets, against an independent layer-walk and restart-periodicity reference',
        category='exploration',
        text=('Bottom-hole temperature and the capped depth for every 1..3-segment layout (and 4-segment layouts within two deviations) over depth/Tmax/Tsurf alphabets; start value, drawdown limit (incl. Maximum Drawdown 1 with drawdown parameter x lifetime > 1), restart periodicity, closed-form redrilling count (model 4) and (models 3,4) monotonicity/upper bound on every time step of every end-to-end execution.'),
        design_ref='DESIGN.md section 4 C05',
        note='Heuristic-triggering magnitudes excluded; monotonicity only where bottom-hole >= injection temperature.'),
    'C07': dict(
        engine='xplore',
        technique='finite complete enumeration: every float/int parameter of every instantiated module x boundary/outside probes, per configuration family, on the real client and the real parameter reader',
        category='exploration',
        text=('Complete per family (14 families incl. SBT, SUTRA, AGS, CLGS, add-ons, S-DAC-GT, HIP-RA-X): outside values (neighbours of the bounds, gaps, declared defaults outside the range, fractional non-members of option inputs, the just-above-maximum quantity written in another catalogue unit) must be rejected by the client with a message naming the parameter and no report; bounds must be read and held unaltered (a constant unit rescale is told apart from a clamp by a third interior probe).'),
        design_ref='DESIGN.md section 4 C07',
        note='Boundary probes stop after parameter reading. List parameters excluded. Two documented configuration overrides exempted (evidence lists them).'),
    'C15': dict(
        engine='xplore',
        technique='bounded exhaustive exploration of hydraulic configurations (both hydraulic models, pumped/self-flowing, overpressure x depletion x split reservoir) with a function-level sweep of the real friction routine at every hook',
        category='exploration',
        text=('Non-negativity and additivity of pumping power at every time step, closed-form overpressure depletion / injection inflation series, '
              'and friction monotonicity over 8 ordered diameters x 7 flows (laminar and turbulent) evaluated with the real routine on the live model.'),
        design_ref='DESIGN.md section 4 C15',
        note='Hydrostatic pressure under the built-in correlation inferred from the initial pressure.'),
    'C16': dict(
        engine='xplore',
        technique='exhaustive enumeration of the complete small integer domains of the two schedule builders (function level) plus end-to-end run pairs for incentives',
        category='exploration',
        text=('Every (lifetime, escalation start, start/end, rate, PTC duration, adjusted, inflation) tuple is compared element-wise with price_ref; '
              'end-to-end price series at the hook for construction years {1,2,3,14}; ITC/grant/fee/relief arithmetic as exact relations between run pairs.'),
        design_ref='DESIGN.md section 4 C16',
        note='PTC added in the unit typed; PTC duration > lifetime is a rejected input on the pinned tree.'),
    'C13': dict(
        engine='poolx+ilvx',
        technique='stateless model checking of the real code: exhaustive enumeration of all task-to-worker assignments (set partitions) under a fork-faithful controlled process pool, plus preemption-bounded exhaustive interleaving exploration of the real pylocker append protocol under a controlled scheduler',
        category='exploration',
        text=('Every assignment of K iterations to <=W forked workers is executed with the real main()/work_package, also in a process that already served another Monte-Carlo request (distinctness of vectors and of each input, support, call conformance incl. the "#" placeholder, recorded value == drawn value, row count); every interleaving of two real Locker-guarded appends up to 3 (thorough 6) preemptions (sleeps are free switches) is executed on real files with os._exit semantics at worker exit. Coverage statement for the stated bounds.'),
        design_ref='DESIGN.md sections 3.4, 3.5, 4 C13',
        note=('Independence decided through checkable consequences, not statistics. Append atomicity of a single write(2) assumed. '
              'Worker exit modelled as os._exit (confirmed with real processes in demos/).')),
    'C14': dict(
        engine='poolx+ilvx',
        technique='fault enumeration on the real code: all 2^K subsets of failing iterations x all task-to-worker assignments under the controlled pool with scripted samples, every row re-simulated; preemption-bounded exhaustive interleavings of concurrent appends',
        category='fault_enumeration',
        text=('All fail subsets x all assignments for three bases x three output lists; long runs whose batching depends on the CPU count or the iteration count (K=8 with one CPU, K=33 with every position of one failing iteration); each surviving row replayed through the real client and compared token by token in header order; statistics and JSON recomputed from the rows; interleavings as C13 with rows of different lengths.'),
        design_ref='DESIGN.md sections 3.4, 3.5, 4 C14',
        note='Scripted samples replace numpy draws inside the Monte-Carlo module only; open known findings listed in known_findings.json.'),
    'C11': dict(
        engine='xplore',
        technique='bounded exhaustive exploration of run pairs (metamorphic relations) on the real pipeline over the complete economic-model x end-use grid',
        category='exploration',
        text=('Linear scaling of every levelized cost under k-scaling of all cost inputs (k in {0.5,2,3}); price moves (distinct schedule per product) leave levelized costs bit-identical and move NPV strictly with the price series when the yearly energy sold is positive; efficiency halving doubles LCOH; seven neutral elements change no output and no report line outside the extended block, also on a declining field with negative net generation; standard and SBT families.'),
        design_ref='DESIGN.md section 4 C11',
        note='Each run of a pair executes in its own pristine child; price direction derived from price_ref.'),
    'C18': dict(
        engine='xplore',
        technique='bounded exhaustive exploration: all ordered pairs over ordered alphabets of the varied parameter (reservoir level, end to end and function level)',
        category='exploration',
        text=('Weak monotonicity for every ordered pair: bottom-hole temperature vs gradients/depth, model-4 reservoir temperature vs drawdown rate at '
              'every step, initial production temperature vs flow, well cost vs depth (17 correlations, real cost function, 260 depths per regime), '
              'NPV / levelized costs vs ~25 cost inputs and factors.'),
        design_ref='DESIGN.md section 4 C18',
        note='Clause (b) with redrilling disabled; levelized-cost clause only where yearly energy is positive.'),
    'C17': dict(
        engine='xplore',
        technique='bounded exhaustive exploration of the real HIP-RA-X calculator: all single and pairwise deviations over alphabets discovered from the live parameter dictionary, with scaling relations as run pairs',
        category='exploration',
        text=('Volumetric identities, additivity of stored heat and the ordering of the heat cascade on every accepted point; exact homogeneity in '
              'area and thickness (k in {0.5,2,10}) with per-area / per-volume / percentage / specific outputs invariant.'),
        design_ref='DESIGN.md section 4 C17',
        note='Unit-spelling variants are exercised by the C06 machinery.'),
    'C19': dict(
        engine='xplore',
        technique='explicit-state reachability of the configuration-selection machine (complete product of selector values on the real Model constructor and reader) followed by complete set comparison with the real generator output and enforcement probes',
        category='exploration',
        text=('10368 real constructions -> reachable module-class tuples (states) -> union of accepted parameters; set equality with the generated request schema; type/default/unit/bounds for identically defined parameters; committed vs generated artefacts, generated in a fresh interpreter and in one that has already simulated; schema bounds probed through the real reader; schema defaults probed behaviourally (left out == default supplied, by-design presence switches excluded mechanically from the source); every result-schema field extracted from some stored or generated report.'),
        design_ref='DESIGN.md section 4 C19',
        note='Seven deliberately redefined parameters excluded from the bound/default clause as the property says (listed in evidence).'),
    'C12': dict(
        engine='xplore',
        technique='exhaustive enumeration of layout orbits of one parameter set on the real pipeline (all n! orders for 6-line inputs; complete 1-move, rotation, transposition and decoration orbits for full-size inputs)',
        category='exploration',
        text=("Every member of each orbit is executed in its own pristine process and must give bit-identical computed results and an identical report: all orders of seven small inputs; for full inputs (incl. SBT, a list-style gradient input, an add-ons + S-DAC-GT input moved block-wise) reversal, sorts, rotations, transpositions, single-line moves, decorations incl. the twelve exotic whitespace characters; duplicates with a different value before the governing line, x, y, x triples, identical duplicates; the client's override dictionary on a base file x six layouts of the file's end."),
        design_ref='DESIGN.md section 4 C12',
        note='Structural options read by Model.__init__ are excluded from the different-value duplicate test.'),
    'C08': dict(
        engine='histx',
        technique='explicit-state search over request histories on the real process: all histories up to a depth over a fixed event menu, each replayed in one forked process, with the process-state vector as canonical state',
        category='exploration',
        text=('All histories of length <= 2 over 23 events (+ length 3 over 9; thorough: length <= 3 over 30, length <= 2 over 40, then a depth-4 frontier pruned on the process-state digest with a soundness check of the pruning): succeeding requests of every module family, failing requests (while reading / calculating / printing / bare sys.exit), rewrite-and-ask-again with succeeding or aborting content, newer / unchanged / older modification time, a new or the same request object, base file + override dictionary on a rewritten base, caching and non-caching clients, HIP-RA-X. Every result is compared with the isolated run of the same content (three hash seeds, two directories); cwd/argv identity after every call; process-state vector (incl. a digest of the library module-/class-level containers) against the pristine one.'),
        design_ref='DESIGN.md sections 3.3, 4 C08',
        note='Memo tables (lru_cache, pint registry) are treated as pure caches and reported, not compared.'),
    'C20': dict(
        engine='histx',
        technique='finite complete product enumeration (input x entry point x output argument x starting directory) on the real entry points, the CLI as real subprocesses',
        category='exploration',
        text=('340 executions covering every combination of 10 inputs x {command line x 5 output arguments (run from a private symlink view of the source tree, so that stray files are attributable), client, direct main(), Monte-Carlo-embedded client, each in a fresh interpreter and after three kinds of earlier request} x 2 starting directories; reports compared across entry points, report/JSON placement and exit status on the CLI, relative output-file parameters resolved against the starting directory, no report after a failing simulation.'),
        design_ref='DESIGN.md section 4 C20',
        note='Direct main() is driven with absolute paths.'),
    'C09': dict(
        engine='xplore',
        technique='bounded exhaustive exploration of the report writer\'s branch space through inputs; every printed figure (independent tokeniser) compared with an independent label->quantity specification evaluated on the pre-print snapshot',
        category='exploration',
        text=('3 economic models x 32 end-use/plant pairs x 4 reservoir models x shapes x 14 structural deviations + add-ons: ~160 distinct labels and '
              '5 table families; each printed number must equal the specified quantity at printed precision in a unit of that quantity; tables must '
              'have one row per (construction and) simulated year with consecutive labels and every cell equal to the series value.'),
        design_ref='DESIGN.md section 4 C09',
        note='report_spec.py is hand-written from the meaning of the labels; S-DAC-GT block unmodelled; percent-magnitude lines encoded as such.'),
    'C10': dict(
        engine='xplore',
        technique='bounded exhaustive exploration: the generated report corpus of every writer branch combination plus all stored reports, client parser compared field by field and cell by cell with an independent tokeniser; JSON against the snapshot; re-parsing under three hash seeds in fresh interpreters',
        category='exploration',
        text=('Every non-empty client field must be the number and unit of the line with exactly that label in its own section; every profile table row for row; as_csv() re-read equals the result, a second export equals the first and leaves the result object unchanged; JSON quantities equal the pre-print snapshot; parses identical under PYTHONHASHSEED 0/1/12345.'),
        design_ref='DESIGN.md section 4 C10',
        note='JSON-vs-report decided as JSON-vs-snapshot (C09 ties snapshot to text).'),
    'C06': dict(
        engine='xplore',
        technique='finite complete enumeration per configuration family of (input parameter x catalogue unit) and (output parameter x catalogue unit) pairs on the real pipeline, each compared relationally with the run in the declared unit using an own conversion table',
        category='exploration',
        text=("Every float input parameter x every convertible catalogue unit: computed results equal (1e-7, judged against the run's own rounding sensitivity when a model amplifies a 5e-13 perturbation) and every report line denotes the same quantity; ordered pairs of inputs of one unit type with different declared units written together; every output parameter x convertible unit through the Units: directive: pre-print results identical, changed lines in the requested unit, table columns change by the exact factor. Complete for the families listed (standard, over-pressure / injection reservoir, SBT, SUTRA, add-on + S-DAC-GT; thorough adds three standard families and AGS)."),
        design_ref='DESIGN.md section 4 C06',
        note='Own conversion table vf/oracles/units_ref.py; exchange-rate currencies not exercised. 145 narrowly keyed open findings (the unit machinery of the pinned tree is broadly defective; an existing test pins the design that causes the echo defect).'),
}

# round 3 additions to the level texts (what the checks cover beyond the round-2 statements)
ROUND3 = {
    'C01': 'The rates of the three formulas are taken from the input as written (a run that overwrites one of its own rate parameters while calculating shows).',
    'C02': 'District heating also with an hourly demand file that covers a leap year (8784 hours).',
    'C03': 'Well counts are tied to the input (zero injection wells included in the alphabet).',
    'C04': 'Add-on metrics also for every construction-years > 1 shape (add-ons that cost nothing, the ones the pinned report writer prints); the NPV rate is taken from the input.',
    'C05': 'Every drawdown case also with an injection wellbore temperature gain; model 3 with mid-range drawdown parameters that bring the curve near its asymptote midway.',
    'C08': 'Events also include the same plain file asked again through the non-caching client and a rewrite that keeps size and modification time.',
    'C09': 'One S-DAC-GT run has every S-DAC-GT input off its default.',
    'C10': 'JSON completeness: every computed output quantity of every participating module (add-ons, S-DAC-GT) has its entry.',
    'C13': 'Request level: two client requests that name no result file, in all 6 admissible orders of make/serve, with the clock frozen to one instant or real, x 2 assignments.',
    'C14': 'The electricity base also with a relative result-file name (resolved in a private view of the Monte-Carlo package) for every fail subset x assignment.',
    'C17': 'Client level: all request histories of length <= 2 (thorough 3) on one HipRaXClient and one rewritten path over 6 contents x modification time x request object x caching.',
    'C20': 'Output arguments include a name without extension and the same below a directory with a dot in its name; a third starting directory has a dot in its name; stray JSON files are violations.',
}
for _k, _v in ROUND3.items():
    CHECKS[_k]['text'] = CHECKS[_k]['text'].rstrip() + ' ' + _v


def manifest():
    checks = []
    for pid in ALL:
        if pid not in CHECKS:
            continue
        c = CHECKS[pid]
        checks.append({
            'property_id': pid,
            'quick_cmd': f'bin/check {pid} --tier quick',
            'thorough_cmd': f'bin/check {pid} --tier thorough',
            'evidence_file': f'/verif/evidence/{pid}.json',
            'replay_cmd_template': f'bin/check {pid} --replay {{path}}',
            'engine': c['engine'].split('+')[0],
            'technique': c['technique'],
            'level_claimed': {'category': c['category'], 'text': c['text'], 'design_ref': c['design_ref']},
            'level_note': c['note'],
        })
    na = [{'property_id': pid, 'reason': 'check not built yet in this round (planned; see DESIGN.md section 8 build order) - not a statement that the technique cannot apply'}
          for pid in ALL if pid not in CHECKS]
    return {
        'version': 1,
        'setup_cmd': '/venv/bin/python -m compileall -q vf >/dev/null; mkdir -p evidence replays; test -x bin/check',
        'hooks': {
            'guard': 'GEOPHIRES_X_VERIF',
            'enable': 'checks export GEOPHIRES_X_VERIF=1 (bin/check) and import /repo/src directly; no build step',
            'baseline_off_cmd': BASELINE,
            'source_commits': ['b900803'],
            'fix_commits': ['83ef652', '14ba6d3', '02fd4ac', 'a169dc6', '7ac55fd', '7b44272', 'e599a4c', 'a02ed85', 'dc24d41', '1888e79', 'e755f4f', '35db34e', '2cdc23f', '89d9dc6', '3882b25', 'c1370a5', '71b806f', 'bbc1fd9', '7a63328', '7110d1b'],
            'add_only': True,
        },
        'engines': [
            {'name': 'histx', 'path': 'vf/engines/histx.py', 'serves_properties': ['C08', 'C20'],
             'kind_free_text': 'explicit-state search over request histories: a state is the history that produced it, replayed in one forked process; process-state vector digest as canonical state'},
            {'name': 'poolx', 'path': 'vf/engines/poolx.py', 'serves_properties': ['C13', 'C14'],
             'kind_free_text': 'fork-faithful controlled replacement of ProcessPoolExecutor; enumerates all set partitions of tasks over workers (and all fail subsets) on the real Monte-Carlo main()'},
            {'name': 'ilvx', 'path': 'vf/engines/ilvx.py', 'serves_properties': ['C13', 'C14'],
             'kind_free_text': 'preemption-bounded DFS over thread interleavings of the real pylocker append path; scheduling points at the file-system/clock operations pylocker performs (proxies bound into the pylocker.Locker module object), polling made visible, virtual clock'},
            {'name': 'xplore', 'path': 'vf/core/e1.py', 'serves_properties': [p for p in ALL if p in CHECKS and CHECKS[p]['engine'] == 'xplore'],
             'kind_free_text': 'deviation-bounded exhaustive enumeration of input configurations; every execution is a complete run of the real pipeline in a child forked from a pristine image; monitors run on the live model at the hook'},
        ],
        'checks': checks,
        'not_applicable': na,
        'notes': 'All explorers drive the real code; see DESIGN.md. Scratch space: /var/tmp/vf-*, removed at exit.',
    }
