"""Reference for resource temperature (C05, C18). Plain Python; no GEOPHIRES imports."""
import math


def bottom_hole(Tsurf, gradients_C_per_km, thicknesses_km, depth_km, Tmax):
    """
    Walk the layers from the surface; the depth is reduced to the first depth at which the temperature reaches
    Tmax. Returns (temperature at the (capped) depth, capped depth in km). The last gradient extends to infinity.
    """
    g = [max(x / 1000.0, 1e-6) for x in gradients_C_per_km]      # C/m; a zero gradient is treated as 1e-6 C/m
    th = [t * 1000.0 for t in thicknesses_km[:len(g) - 1]] + [math.inf]
    depth = depth_km * 1000.0
    T, z = Tsurf, 0.0
    for gi, ti in zip(g, th):
        z_end = min(depth, z + ti)
        dz = z_end - z
        if T + gi * dz > Tmax:           # cap reached inside this layer
            dz = (Tmax - T) / gi
            return T + gi * dz, (z + dz) / 1000.0
        T += gi * dz
        z = z_end
        if z >= depth:
            break
    return T, z / 1000.0


def tdp_profile(Trock, Tinj, dp, times):
    return [(1 - dp * t) * (Trock - Tinj) + Tinj for t in times]


def first_below(series, limit):
    for k, x in enumerate(series):
        if x < limit:
            return k
    return None


def is_periodic(series, p, rtol=1e-12):
    return all(abs(series[k] - series[k % p]) <= rtol * max(1.0, abs(series[k])) for k in range(len(series)))
