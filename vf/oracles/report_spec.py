"""
What every figure of the case report must show (C09): for each (section, label) the quantity (an expression over the
PRE-PRINT snapshot of the model), the unit that quantity is held in, and the display convention. Written from the property
statement and the meaning of the labels; the report writer is not imported.

    qsnap(model)            -> Q: {'rs.Trock': {'v': 185.0, 'u': 'degC', 'pu': 'degC'}, ...}   (taken at the hook)
    expected_fields(Q)      -> {(section, label): Exp(value, unit, conv)}
    expected_tables(Q)      -> {title: TableExp(n_rows, first_year, columns=[(name, [values], unit)])}

conv: '' plain; 'x100' the printed number is the snapshot fraction times 100 (the line shows a percent magnitude, with or
without a % sign); 'na_if_nonpositive' prints N/A instead of a non-positive value; 'int' integer count.
"""
import math
from collections import namedtuple

import numpy as np

Exp = namedtuple('Exp', 'value unit conv')
TableExp = namedtuple('TableExp', 'n_rows first_year columns note')

ALIAS = (('rs', 'reserv'), ('wb', 'wellbores'), ('sp', 'surfaceplant'), ('ec', 'economics'), ('ae', 'addeconomics'), ('sd', 'sdacgteconomics'))


def _plain(v):
    if hasattr(v, 'int_value'):
        return int(v.int_value)
    if isinstance(v, (bool, np.bool_)):
        return bool(v)
    if isinstance(v, (int, float, np.integer, np.floating)):
        return float(v)
    if isinstance(v, str):
        return v
    if isinstance(v, (list, tuple, np.ndarray)):
        try:
            return [float(x) for x in np.asarray(v, dtype=float).ravel()]
        except (TypeError, ValueError):
            return None
    return None


def qsnap(m):
    Q = {}
    for al, name in ALIAS:
        mod = getattr(m, name, None)
        if mod is None:
            continue
        for attr, obj in vars(mod).items():
            if hasattr(obj, 'value') and hasattr(obj, 'CurrentUnits'):
                cu, pu = obj.CurrentUnits, getattr(obj, 'PreferredUnits', None)
                Q[f'{al}.{attr}'] = {'v': _plain(obj.value), 'u': str(getattr(cu, 'value', cu) if cu is not None else ''),
                                     'pu': str(getattr(pu, 'value', pu) if pu is not None else ''),
                                     'provided': bool(getattr(obj, 'Provided', False)), 'valid': bool(getattr(obj, 'Valid', True))}
            elif isinstance(obj, (int, float, bool)) and not attr.startswith('_'):
                Q[f'{al}.{attr}'] = {'v': float(obj), 'u': '', 'pu': '', 'provided': False, 'valid': True}
    Q['_classes'] = {al: type(getattr(m, name)).__name__ for al, name in ALIAS if getattr(m, name, None) is not None}
    return Q


class X:
    """accessor over a snapshot"""

    def __init__(self, Q):
        self.Q = Q

    def has(self, k):
        return k in self.Q and self.Q[k]['v'] is not None

    def v(self, k):
        return self.Q[k]['v']

    def a(self, k):
        return np.atleast_1d(np.asarray(self.Q[k]['v'], dtype=float))

    def u(self, k):
        return self.Q[k]['u']

    def pu(self, k):
        return self.Q[k]['pu']


def expected_fields_sutra(Q):
    """report of the reservoir-thermal-energy-storage (SUTRA) configuration, which has its own writer"""
    x = X(Q)
    E = {}

    def put(section, label, value, unit, conv=''):
        E[(section, label)] = Exp(value, unit, conv)

    def stats(section, stem, key):
        a = x.a(key)
        for nm, val in (('Maximum', a.max()), ('Average', a.mean()), ('Minimum', a.min())):
            put(section, f'{nm} {stem}', float(val), x.u(key))
    S = 'SUMMARY OF RESULTS'
    put(S, 'Direct-Use heat breakeven price', x.v('ec.LCOH'), x.u('ec.LCOH'))
    flow = float(np.abs(x.a('wb.ProductionWellFlowRates')).mean())
    for sec in (S, 'ENGINEERING PARAMETERS'):
        put(sec, 'Number of Production Wells', x.v('wb.nprod'), '', 'int')
        put(sec, 'Number of Injection Wells', x.v('wb.ninj'), '', 'int')
        put(sec, 'Lifetime Average Well Flow Rate', flow, x.u('wb.ProductionWellFlowRates'))
        put(sec, 'Well depth', x.v('rs.depth'), x.u('rs.depth'))
    P = 'ECONOMIC PARAMETERS'
    em = int(x.v('ec.econmodel'))
    if em == 1:
        put(P, 'Fixed Charge Rate (FCR)', x.v('ec.FCR'), x.u('ec.FCR'), 'x100')
    if em == 2:
        put(P, 'Interest Rate', x.v('ec.interest_rate'), x.u('ec.interest_rate'))
    put(P, 'Accrued financing during construction', x.v('ec.inflrateconstruction'), x.u('ec.inflrateconstruction'), 'x100')
    put(P, 'Project lifetime', int(x.v('sp.plant_lifetime')), x.u('sp.plant_lifetime'), 'int')
    G = 'ENGINEERING PARAMETERS'
    put(G, 'Pump efficiency', x.v('sp.pump_efficiency'), x.u('sp.pump_efficiency'))
    put(G, 'Injection well casing ID', x.v('wb.injwelldiam'), x.u('wb.injwelldiam'))
    put(G, 'Production well casing ID', x.v('wb.prodwelldiam'), x.u('wb.prodwelldiam'))
    Z = 'RESERVOIR SIMULATION RESULTS'
    stats(Z, 'Storage Well Temperature', 'wb.ProducedTemperature')
    stats(Z, 'Balance Well Temperature', 'wb.Tinj')
    stats(Z, 'Annual Heat Stored', 'rs.AnnualHeatStored')
    stats(Z, 'Annual Heat Supplied', 'rs.AnnualHeatSupplied')
    put(Z, 'Average Round-Trip Efficiency', float(x.a('rs.AnnualRTESEfficiency').mean()), x.u('rs.AnnualRTESEfficiency'))
    put(Z, 'Total Average Pressure Drop', float(x.a('wb.DPOverall').mean()), x.u('wb.DPOverall'))
    U = 'SURFACE EQUIPMENT SIMULATION RESULTS'
    put(U, 'Average RTES Heating Production', float(x.a('sp.HeatProduced').mean()), x.u('sp.HeatProduced'))
    put(U, 'Average Auxiliary Heating Production', float(x.a('sp.AuxiliaryHeatProduced').mean()), x.u('sp.AuxiliaryHeatProduced'))
    put(U, 'Average Annual RTES Heating Production', float(x.a('sp.AnnualHeatProduced').mean()), x.u('sp.AnnualHeatProduced'))
    put(U, 'Average Annual Auxiliary Heating Production', float(x.a('sp.AnnualAuxiliaryHeatProduced').mean()), x.u('sp.AnnualAuxiliaryHeatProduced'))
    put(U, 'Average Annual Total Heating Production', float(x.a('sp.AnnualTotalHeatProduced').mean()), x.u('sp.AnnualTotalHeatProduced'))
    put(U, 'Average Pumping Power', float(x.a('wb.PumpingPower').mean()), x.u('wb.PumpingPower'))
    put(U, 'Average Annual Electricity Use for Pumping', float(x.a('sp.PumpingkWh').mean()), x.u('sp.PumpingkWh'))
    K = 'CAPITAL COSTS (M$)'
    nw = x.v('wb.nprod') + x.v('wb.ninj')
    put(K, 'Drilling and Completion Costs', x.v('ec.Cwell'), x.u('ec.Cwell'))
    put(K, 'Drilling and Completion Costs per Well', x.v('ec.Cwell') / nw, x.u('ec.Cwell'))
    put(K, 'Drilling and completion costs per production well', x.v('ec.cost_one_production_well'), x.u('ec.cost_one_production_well'))
    put(K, 'Drilling and completion costs per injection well', x.v('ec.cost_one_injection_well'), x.u('ec.cost_one_injection_well'))
    put(K, 'Auxiliary Heater Cost', x.v('ec.peakingboilercost'), x.u('ec.peakingboilercost'))
    put(K, 'Pump Cost', x.v('ec.Cpumps'), x.u('ec.peakingboilercost'))
    put(K, 'Total Capital Costs', x.v('ec.CCap'), x.u('ec.CCap'))
    O = 'OPERATING AND MAINTENANCE COSTS (M$/yr)'
    put(O, 'Average annual auxiliary fuel cost', float(x.a('ec.annualngcost').mean()), x.u('ec.annualngcost'))
    put(O, 'Average annual pumping cost', float(x.a('ec.annualpumpingcosts').mean()), x.u('ec.annualpumpingcosts'))
    put(O, 'Total average annual O&M costs', float(x.a('ec.Coam').mean()), x.u('ec.Coam'))
    return E


def expected_fields(Q):
    if Q['_classes'].get('ec') == 'SUTRAEconomics':
        return expected_fields_sutra(Q)
    x = X(Q)
    E = {}
    eu = int(x.v('sp.enduse_option'))
    pt = int(x.v('sp.plant_type'))
    cls = Q['_classes']['sp']
    L = int(x.v('sp.plant_lifetime'))
    elec = eu != 2
    heat = eu != 1

    def put(section, label, value, unit, conv=''):
        E[(section, label)] = Exp(value, unit, conv)

    def stats(section, stem, key, names=('Maximum', 'Average', 'Minimum', 'Initial')):
        a = x.a(key)
        for nm, val in zip(('Maximum', 'Average', 'Minimum', 'Initial'), (a.max(), a.mean(), a.min(), a[0])):
            if nm in names:
                put(section, f'{nm} {stem}', float(val), x.u(key))

    S = 'SUMMARY OF RESULTS'
    if elec:
        put(S, 'Average Net Electricity Production', float(x.a('sp.NetElectricityProduced').mean()), x.u('sp.NetElectricityProduced'))
    if heat:
        put(S, 'Average Direct-Use Heat Production', float(x.a('sp.HeatProduced').mean()), x.u('sp.HeatProduced'))
    if cls == 'SurfacePlantDistrictHeating':
        put(S, 'Annual District Heating Demand', float(x.v('sp.annual_heating_demand')), x.u('sp.annual_heating_demand'))
        put(S, 'Average Annual Geothermal Heat Production', float(x.a('sp.dh_geothermal_heating').sum() * 24 / L / 1e3), 'GWh/year')
        put(S, 'Average Annual Peaking Fuel Heat Production', float(x.a('sp.dh_natural_gas_heating').sum() * 24 / L / 1e3), 'GWh/year')
    if cls == 'SurfacePlantAbsorptionChiller':
        put(S, 'Average Cooling Production', float(x.a('sp.cooling_produced').mean()), x.u('sp.cooling_produced'))
        put(S, 'Direct-Use Cooling Breakeven Price (LCOC)', x.v('ec.LCOC'), x.u('ec.LCOC'))
    if eu == 1 or eu > 2:
        put(S, 'Electricity breakeven price', x.v('ec.LCOE'), x.u('ec.LCOE'))
    if (eu == 2 and cls != 'SurfacePlantAbsorptionChiller') or eu > 2:
        put(S, 'Direct-Use heat breakeven price (LCOH)', x.v('ec.LCOH'), x.u('ec.LCOH'))
    put(S, 'Number of production wells', x.v('wb.nprod'), '', 'int')
    put(S, 'Number of injection wells', x.v('wb.ninj'), '', 'int')
    for sec in (S, 'ENGINEERING PARAMETERS'):
        put(sec, 'Flowrate per production well', x.v('wb.prodwellflowrate'), x.u('wb.prodwellflowrate'))
        put(sec, 'Well depth', x.v('rs.depth'), x.u('rs.depth'))
        put(sec, 'Well depth (or total length, if not vertical)', x.v('rs.depth'), x.u('rs.depth'))
    nseg = int(x.v('rs.numseg'))
    g, th = x.a('rs.gradient'), x.a('rs.layerthickness')
    for sec in (S, 'RESOURCE CHARACTERISTICS'):
        if nseg == 1:
            put(sec, 'Geothermal gradient', float(g[0]), x.u('rs.gradient'))
        else:
            for i in range(nseg):
                put(sec, f'Segment {i + 1}   Geothermal gradient', float(g[i]), x.u('rs.gradient'))
                if i < nseg - 1:
                    put(sec, f'Segment {i + 1}   Thickness', float(th[i]), x.u('rs.layerthickness'))
    if x.v('ec.DoCarbonCalculations'):
        put(S, 'Total Avoided Carbon Emissions', x.v('ec.CarbonThatWouldHaveBeenProducedTotal'), x.u('ec.CarbonThatWouldHaveBeenProducedTotal'))

    P = 'ECONOMIC PARAMETERS'
    em = int(x.v('ec.econmodel'))
    if em == 1:
        put(P, 'Fixed Charge Rate (FCR)', x.v('ec.FCR'), x.u('ec.FCR'), 'x100')
    if em == 2:
        put(P, 'Interest Rate', x.v('ec.interest_rate'), x.u('ec.interest_rate'))
    put(P, 'Accrued financing during construction', x.v('ec.inflrateconstruction'), x.u('ec.inflrateconstruction'), 'x100')
    put(P, 'Project lifetime', L, x.u('sp.plant_lifetime'), 'int')
    put(P, 'Capacity factor', x.v('sp.utilization_factor'), '', 'x100')
    put(P, 'Project NPV', x.v('ec.ProjectNPV'), x.u('ec.ProjectNPV'))
    put(P, 'Project IRR', x.v('ec.ProjectIRR'), x.u('ec.ProjectIRR'))
    put(P, 'Project VIR=PI=PIR', x.v('ec.ProjectVIR'), '')
    put(P, 'Project MOIC', x.v('ec.ProjectMOIC'), '')
    put(P, 'Project Payback Period', x.v('ec.ProjectPaybackPeriod'), x.u('ec.ProjectPaybackPeriod'), 'na_if_nonpositive')
    if eu > 2:
        put(P, 'CHP: Percent cost allocation for electrical plant', x.v('ec.CAPEX_heat_electricity_plant_ratio'), '', 'x100')
    if eu == 1:
        put(P, 'Estimated Jobs Created', x.v('ec.jobs_created'), '', 'int')

    G = 'ENGINEERING PARAMETERS'
    put(G, 'Number of Production Wells', x.v('wb.nprod'), '', 'int')
    put(G, 'Number of Injection Wells', x.v('wb.ninj'), '', 'int')
    put(G, 'Water loss rate', x.v('rs.waterloss'), x.u('rs.waterloss'), 'x100')
    put(G, 'Pump efficiency', x.v('sp.pump_efficiency'), x.u('sp.pump_efficiency'))
    put(G, 'Injection temperature', x.v('wb.Tinj'), x.u('wb.Tinj'))
    if x.v('wb.rameyoptionprod'):
        put(G, 'Average production well temperature drop', float(x.a('wb.ProdTempDrop').mean()), x.u('wb.ProdTempDrop'))
    else:
        put(G, 'Constant production well temperature drop', x.v('wb.tempdropprod'), x.u('wb.tempdropprod'))
    put(G, 'Injection well casing ID', x.v('wb.injwelldiam'), x.u('wb.injwelldiam'))
    put(G, 'Production well casing ID', x.v('wb.prodwelldiam'), x.u('wb.prodwelldiam'))
    put(G, 'Number of times redrilling', x.v('wb.redrill'), '', 'int')

    C = 'RESOURCE CHARACTERISTICS'
    put(C, 'Maximum reservoir temperature', x.v('rs.Tmax'), x.u('rs.Tmax'))
    put(C, 'Number of segments', nseg, '', 'int')

    R = 'RESERVOIR PARAMETERS'
    rm = int(x.v('rs.resoption'))
    if rm == 3:
        put(R, 'm/A Drawdown Parameter', x.v('rs.drawdp'), x.u('rs.drawdp'))
    if rm == 4:
        put(R, 'Annual Thermal Drawdown', x.v('rs.drawdp'), x.u('rs.drawdp'), 'x100')
    put(R, 'Bottom-hole temperature', x.v('rs.Trock'), x.u('rs.Trock'))
    if rm in (1, 2):
        put(R, 'Well separation: fracture diameter', x.v('rs.fracheightcalc'), x.u('rs.fracheightcalc'))
        put(R, 'Well separation: fracture height', x.v('rs.fracheightcalc'), x.u('rs.fracheightcalc'))
        put(R, 'Fracture width', x.v('rs.fracwidthcalc'), x.u('rs.fracwidthcalc'))
        put(R, 'Fracture area', x.v('rs.fracareacalc'), x.u('rs.fracareacalc'))
    put(R, 'Number of fractures', x.v('rs.fracnumbcalc'), '')
    put(R, 'Fracture separation', x.v('rs.fracsepcalc'), x.u('rs.fracsepcalc'))
    put(R, 'Reservoir volume', x.v('rs.resvolcalc'), x.u('rs.resvolcalc'))
    if x.v('wb.impedancemodelused'):
        put(R, 'Reservoir impedance', x.v('wb.impedance') / 1000.0, x.u('wb.impedance'))      # held x1000 internally (see C07 evidence)
    else:
        if Q['wb.overpressure_percentage']['provided']:
            put(R, 'Average reservoir pressure', x.v('wb.average_production_reservoir_pressure'), x.u('wb.average_production_reservoir_pressure'))
        else:
            put(R, 'Reservoir hydrostatic pressure', float(x.a('wb.production_reservoir_pressure')[0]), x.u('wb.production_reservoir_pressure'))
        put(R, 'Plant outlet pressure', x.v('sp.plant_outlet_pressure'), x.u('sp.plant_outlet_pressure'))
        if x.v('wb.productionwellpumping'):
            put(R, 'Production wellhead pressure', float(np.atleast_1d(x.v('wb.Pprodwellhead'))[0]), x.u('wb.Pprodwellhead'))
            put(R, 'Productivity Index', x.v('wb.PI'), x.u('wb.PI'))
        put(R, 'Injectivity Index', x.v('wb.II'), x.u('wb.II'))
    put(R, 'Reservoir density', x.v('rs.rhorock'), x.u('rs.rhorock'))
    put(R, 'Reservoir thermal conductivity', x.v('rs.krock'), x.u('rs.krock'))
    put(R, 'Reservoir heat capacity', x.v('rs.cprock'), x.u('rs.cprock'))
    put(R, 'Reservoir porosity', x.v('rs.porrock'), '', 'x100')

    Z = 'RESERVOIR SIMULATION RESULTS'
    stats(Z, 'Production Temperature', 'wb.ProducedTemperature')
    put(Z, 'Average Reservoir Heat Extraction', float(x.a('sp.HeatExtracted').mean()), x.u('sp.HeatExtracted'))
    if x.v('wb.rameyoptionprod'):
        put(Z, 'Average Production Well Temperature Drop', float(x.a('wb.ProdTempDrop').mean()), x.u('wb.ProdTempDrop'))
    else:
        put(Z, 'Wellbore Heat Transmission Model = Constant Temperature Drop', x.v('wb.tempdropprod'), x.u('wb.tempdropprod'))
    if x.v('wb.impedancemodelused'):
        put(Z, 'Total Average Pressure Drop', float(x.a('wb.DPOverall').mean()), x.u('wb.DPOverall'))
        put(Z, 'Average Injection Well Pressure Drop', float(x.a('wb.DPInjWell').mean()), x.u('wb.DPInjWell'))
        put(Z, 'Average Reservoir Pressure Drop', float(x.a('wb.DPReserv').mean()), x.u('wb.DPReserv'))
        put(Z, 'Average Production Well Pressure Drop', float(x.a('wb.DPProdWell').mean()), x.u('wb.DPProdWell'))
        put(Z, 'Average Buoyancy Pressure Drop', float(x.a('wb.DPBouyancy').mean()), x.u('wb.DPBouyancy'))
    else:
        put(Z, 'Average Injection Well Pump Pressure Drop', float(x.a('wb.DPInjWell').mean()), x.u('wb.DPInjWell'))
        if x.v('wb.productionwellpumping'):
            put(Z, 'Average Production Well Pump Pressure Drop', float(x.a('wb.DPProdWell').mean()), x.u('wb.DPProdWell'))

    K = 'CAPITAL COSTS (M$)'
    nw = x.v('wb.nprod') + x.v('wb.ninj')
    mu = x.u('ec.Cwell')
    put(K, 'Drilling and completion costs', x.v('ec.Cwell'), mu)
    put(K, 'Drilling and completion costs per well', x.v('ec.Cwell') / nw if nw else math.nan, mu)
    for lab in ('Drilling and completion costs per production well', 'Drilling and completion costs per vertical production well'):
        put(K, lab, x.v('ec.cost_one_production_well'), x.u('ec.cost_one_production_well'))
    for lab in ('Drilling and completion costs per injection well', 'Drilling and completion costs per vertical injection well'):
        put(K, lab, x.v('ec.cost_one_injection_well'), x.u('ec.cost_one_injection_well'))
    put(K, 'Drilling and completion costs per non-vertical section', x.v('ec.cost_per_lateral_section'), x.u('ec.cost_per_lateral_section'))
    put(K, 'Stimulation costs', x.v('ec.Cstim'), x.u('ec.Cstim'))
    put(K, 'Surface power plant costs', x.v('ec.Cplant'), x.u('ec.Cplant'))
    put(K, 'of which Absorption Chiller Cost', x.v('ec.chillercapex'), x.u('ec.chillercapex'))
    put(K, 'of which Heat Pump Cost', x.v('ec.heatpumpcapex'), x.u('ec.heatpumpcapex'))
    put(K, 'of which Peaking Boiler Cost', x.v('ec.peakingboilercost'), x.u('ec.peakingboilercost'))
    put(K, 'Field gathering system costs', x.v('ec.Cgath'), x.u('ec.Cgath'))
    put(K, 'Transmission pipeline cost', x.v('ec.Cpiping'), x.u('ec.Cpiping'))
    put(K, 'District Heating System Cost', x.v('ec.dhdistrictcost'), x.u('ec.dhdistrictcost'))
    put(K, 'Total surface equipment costs', x.v('ec.Cplant') + x.v('ec.Cgath'), x.u('ec.Cplant'))
    put(K, 'Exploration costs', x.v('ec.Cexpl'), x.u('ec.Cexpl'))
    put(K, 'Drilling and completion costs (for redrilling)', x.v('ec.Cwell'), mu)
    put(K, 'Drilling and completion costs per redrilled well', x.v('ec.Cwell') / nw if nw else math.nan, mu)
    put(K, 'Stimulation costs (for redrilling)', x.v('ec.Cstim'), x.u('ec.Cstim'))
    put(K, 'Investment Tax Credit', -x.v('ec.RITCValue'), x.u('ec.RITCValue'))
    put(K, 'Total capital costs', x.v('ec.CCap'), x.u('ec.CCap'))
    put(K, 'Annualized capital costs', x.v('ec.CCap') * (1 + x.v('ec.inflrateconstruction')) * x.v('ec.FCR'), x.u('ec.CCap'))

    O = 'OPERATING AND MAINTENANCE COSTS (M$/yr)'
    put(O, 'Wellfield maintenance costs', x.v('ec.Coamwell'), x.u('ec.Coamwell'))
    put(O, 'Power plant maintenance costs', x.v('ec.Coamplant'), x.u('ec.Coamplant'))
    put(O, 'Water costs', x.v('ec.Coamwater'), x.u('ec.Coamwater'))
    put(O, 'Average Reservoir Pumping Cost', x.v('ec.averageannualpumpingcosts'), x.u('ec.averageannualpumpingcosts'))
    put(O, 'Absorption Chiller O&M Cost', x.v('ec.chilleropex'), x.u('ec.chilleropex'))
    put(O, 'Average Heat Pump Electricity Cost', x.v('ec.averageannualheatpumpelectricitycost'), x.u('ec.averageannualheatpumpelectricitycost'))
    put(O, 'Annual District Heating O&M Cost', x.v('ec.dhdistrictoandmcost'), x.u('ec.dhdistrictoandmcost'))
    put(O, 'Average Annual Peaking Fuel Cost', x.v('ec.averageannualngcost'), x.u('ec.averageannualngcost'))
    tot = x.v('ec.Coam')
    if not Q['ec.oamtotalfixed']['valid']:
        tot = tot + x.v('ec.averageannualpumpingcosts') + x.v('ec.averageannualheatpumpelectricitycost')   # total incl. purchased electricity
    put(O, 'Total operating and maintenance costs', tot, x.u('ec.Coam'))

    U = 'SURFACE EQUIPMENT SIMULATION RESULTS'
    if elec:
        put(U, 'Initial geofluid availability', float(x.a('sp.Availability')[0]), x.u('sp.Availability'))
        stats(U, 'Total Electricity Generation', 'sp.ElectricityProduced')
        stats(U, 'Net Electricity Generation', 'sp.NetElectricityProduced')
        put(U, 'Average Annual Total Electricity Generation', float(x.a('sp.TotalkWhProduced').mean() / 1e6), 'GWh/year')
        put(U, 'Average Annual Net Electricity Generation', float(x.a('sp.NetkWhProduced').mean() / 1e6), 'GWh/year')
        pp, ne = x.a('wb.PumpingPower'), x.a('sp.NetElectricityProduced')
        put(U, 'Initial pumping power/net installed power', float(pp[0] / ne[0]) if ne[0] else math.nan, '', 'x100')
        if x.has('sp.heat_to_power_conversion_efficiency'):
            put(U, 'Heat to Power Conversion Efficiency', x.v('sp.heat_to_power_conversion_efficiency'), x.u('sp.heat_to_power_conversion_efficiency'))
    if heat:
        stats(U, 'Net Heat Production', 'sp.HeatProduced')
        put(U, 'Average Annual Heat Production', float(x.a('sp.HeatkWhProduced').mean() / 1e6), 'GWh/year')
    if cls == 'SurfacePlantHeatPump':
        put(U, 'Average Annual Heat Pump Electricity Use', float(x.a('sp.heat_pump_electricity_kwh_used').mean() / 1e6), 'GWh/year')
    if cls == 'SurfacePlantAbsorptionChiller':
        stats(U, 'Cooling Production', 'sp.cooling_produced')
        put(U, 'Average Annual Cooling Production', float(x.a('sp.cooling_kWh_Produced').mean() / 1e6), 'GWh/year')
    if cls == 'SurfacePlantDistrictHeating':
        put(U, 'Annual District Heating Demand', float(x.v('sp.annual_heating_demand')), x.u('sp.annual_heating_demand'))
        stats(U, 'Daily District Heating Demand', 'sp.daily_heating_demand', ('Maximum', 'Average', 'Minimum'))
        stats(U, 'Geothermal Heating Production', 'sp.dh_geothermal_heating', ('Maximum', 'Average', 'Minimum'))
        stats(U, 'Peaking Boiler Heat Production', 'sp.dh_natural_gas_heating', ('Maximum', 'Average', 'Minimum'))
    put(U, 'Average Pumping Power', float(x.a('wb.PumpingPower').mean()), x.u('wb.PumpingPower'))

    if 'ae' in Q['_classes']:
        A = 'EXTENDED ECONOMICS'
        put(A, 'Adjusted Project LCOE (after incentives, grants, AddOns,etc)', x.v('ec.LCOE'), x.u('ec.LCOE'))
        put(A, 'Adjusted Project LCOH (after incentives, grants, AddOns,etc)', x.v('ec.LCOH'), x.u('ec.LCOH'))
        put(A, 'Adjusted Project CAPEX (after incentives, grants, AddOns, etc)', x.v('ae.AdjustedProjectCAPEX'), x.u('ae.AdjustedProjectCAPEX'))
        put(A, 'Adjusted Project OPEX (after incentives, grants, AddOns, etc)', x.v('ae.AdjustedProjectOPEX'), x.u('ae.AdjustedProjectOPEX'))
        put(A, 'Project NPV   (including AddOns)', x.v('ae.ProjectNPV'), x.u('ae.ProjectNPV'))
        put(A, 'Project IRR   (including AddOns)', x.v('ae.ProjectIRR'), x.u('ae.ProjectIRR'))
        put(A, 'Project VIR=PI=PIR   (including AddOns)', x.v('ae.ProjectVIR'), '')
        put(A, 'Project MOIC  (including AddOns)', x.v('ae.ProjectMOIC'), '')
        put(A, 'Total Add-on CAPEX', x.v('ae.AddOnCAPEXTotal'), x.u('ae.AddOnCAPEXTotal'))
        put(A, 'Total Add-on OPEX', x.v('ae.AddOnOPEXTotalPerYear'), x.u('ae.AddOnOPEXTotalPerYear'))
        put(A, 'Total Add-on Net Elec', x.v('ae.AddOnElecGainedTotalPerYear'), x.u('ae.AddOnElecGainedTotalPerYear'))
        put(A, 'Total Add-on Net Heat', x.v('ae.AddOnHeatGainedTotalPerYear'), x.u('ae.AddOnHeatGainedTotalPerYear'))
        put(A, 'Total Add-on Profit', x.v('ae.AddOnProfitGainedTotalPerYear'), x.u('ae.AddOnProfitGainedTotalPerYear'))
        put(A, 'AddOns Payback Period', x.v('ae.AddOnPaybackPeriod'), x.u('ae.AddOnPaybackPeriod'))
    if 'sd' in Q['_classes']:
        D = 'S-DAC-GT ECONOMICS'
        put(D, 'LCOD using grid-based electricity only', x.v('sd.LCOD_elec'), x.u('sd.LCOD_elec'))
        put(D, 'LCOD using natural gas only', x.v('sd.LCOD_ng'), x.u('sd.LCOD_ng'))
        put(D, 'LCOD using geothermal energy only', x.v('sd.LCOD_geo'), x.u('sd.LCOD_geo'))
        put(D, 'CO2 Intensity using grid-based electricity only', x.v('sd.CO2total_elec'), '', 'x100')
        put(D, 'CO2 Intensity using natural gas only', x.v('sd.CO2total_ng'), '', 'x100')
        put(D, 'CO2 Intensity using geothermal energy only', x.v('sd.CO2total_geo'), '', 'x100')
        put(D, 'Geothermal LCOH', x.v('sd.LCOH'), x.u('sd.LCOH'))
        put(D, 'Geothermal Ratio (electricity vs heat)', x.v('sd.percent_thermal_energy_going_to_heat'), '', 'x100')
        put(D, 'Percent Energy Devoted To Process', x.v('sd.EnergySplit'), '', 'x100')
        put(D, 'Total Tonnes of CO2 Captured', x.v('sd.CarbonExtractedTotal'), x.u('sd.CarbonExtractedTotal'))
        put(D, 'Total Cost of Capture', float(x.a('sd.S_DAC_GTCummCashFlow')[-1]), x.u('sd.S_DAC_GTCummCashFlow'))
    return E


def expected_tables(Q):
    if Q['_classes'].get('ec') == 'SUTRAEconomics':
        return {}
    x = X(Q)
    T = {}
    eu = int(x.v('sp.enduse_option'))
    cls = Q['_classes']['sp']
    L = int(x.v('sp.plant_lifetime'))
    n = int(x.v('ec.timestepsperyear'))
    cy = int(x.v('sp.construction_years'))
    Tp, Pp = x.a('wb.ProducedTemperature'), x.a('wb.PumpingPower')
    idx = [i * n for i in range(L)]

    def at(a):
        a = np.asarray(a, dtype=float)
        return [float(a[i]) for i in idx]
    cols = [('thermal drawdown', [float(Tp[i] / Tp[0]) for i in idx], ''), ('geofluid temperature', at(Tp), x.u('wb.ProducedTemperature')),
            ('pump power', at(Pp), x.u('wb.PumpingPower'))]
    first = 0
    if eu == 1:
        first = 1
        cols += [('net power', at(x.a('sp.NetElectricityProduced')), x.u('sp.NetElectricityProduced')), ('first law efficiency %', [v * 100 for v in at(x.a('sp.FirstLawEfficiency'))], '%')]
    elif eu == 2 and cls == 'SurfacePlantHeatPump':
        cols += [('net heat', at(x.a('sp.HeatProduced')), x.u('sp.HeatProduced')), ('heat pump electricity use', at(x.a('sp.heat_pump_electricity_used')), 'MW')]
    elif eu == 2 and cls == 'SurfacePlantAbsorptionChiller':
        cols += [('net heat', at(x.a('sp.HeatProduced')), x.u('sp.HeatProduced')), ('net cooling', at(x.a('sp.cooling_produced')), x.u('sp.cooling_produced'))]
    elif eu == 2:
        cols += [('net heat', at(x.a('sp.HeatProduced')), x.u('sp.HeatProduced'))]
    else:
        cols += [('net power', at(x.a('sp.NetElectricityProduced')), x.u('sp.NetElectricityProduced')), ('net heat', at(x.a('sp.HeatProduced')), x.u('sp.HeatProduced')),
                 ('first law efficiency %', [v * 100 for v in at(x.a('sp.FirstLawEfficiency'))], '%')]
    T['HEATING, COOLING AND/OR ELECTRICITY PRODUCTION PROFILE'] = TableExp(L, first, cols, 'one row per simulated year, sampled at the first time step of the year')

    init = float(x.v('rs.InitialReservoirHeatContent'))
    rem = x.a('sp.RemainingReservoirHeatContent')
    ext = [float(v) / 1e6 for v in x.a('sp.HeatkWhExtracted')]
    tail = [('reservoir heat content', [float(v) for v in rem], '10^15 J'), ('percentage of total heat mined', [float((init - v) * 100 / init) for v in rem], '%')]
    hk = [float(v) / 1e6 for v in x.a('sp.HeatkWhProduced')] if x.has('sp.HeatkWhProduced') else None
    if eu == 1:
        cols = [('electricity provided', [float(v) / 1e6 for v in x.a('sp.NetkWhProduced')], 'GWh/year'), ('heat extracted', ext, 'GWh/year')] + tail
    elif cls == 'SurfacePlantAbsorptionChiller':
        cols = [('cooling provided', [float(v) / 1e6 for v in x.a('sp.cooling_kWh_Produced')], 'GWh/year'), ('heat extracted', ext, 'GWh/year')] + tail
    elif cls == 'SurfacePlantHeatPump':
        cols = [('heating provided', hk, 'GWh/year'), ('heat extracted', ext, 'GWh/year'),
                ('heat pump electricity use', [float(v) / 1e6 for v in x.a('sp.heat_pump_electricity_kwh_used')], 'GWh/year')] + tail
    elif cls == 'SurfacePlantDistrictHeating':
        cols = [('geothermal heating provided', hk, 'GWh/year'), ('peaking boiler heating provided', [float(v) / 1e3 for v in x.a('sp.annual_ng_demand')], 'GWh/year'),
                ('heat extracted', ext, 'GWh/year')] + tail
    elif eu == 2:
        cols = [('heat provided', hk, 'GWh/year'), ('heat extracted', ext, 'GWh/year')] + tail
    else:
        cols = [('heat provided', hk, 'GWh/year'), ('electricity provided', [float(v) / 1e6 for v in x.a('sp.NetkWhProduced')], 'GWh/year'), ('heat extracted', ext, 'GWh/year')] + tail
    T['ANNUAL HEATING, COOLING AND/OR ELECTRICITY PRODUCTION PROFILE'] = TableExp(L, 1, cols, 'one row per simulated year')

    def price(k):      # printed in the output's preferred unit
        return (k, [float(v) for v in x.a(k)], x.u(k), x.pu(k))
    opex = [0.0] * cy + [float(x.v('ec.Coam'))] * L
    cols = []
    for p_, r_, c_ in (('ec.ElecPrice', 'ec.ElecRevenue', 'ec.ElecCummRevenue'), ('ec.HeatPrice', 'ec.HeatRevenue', 'ec.HeatCummRevenue'),
                       ('ec.CoolingPrice', 'ec.CoolingRevenue', 'ec.CoolingCummRevenue'), ('ec.CarbonPrice', 'ec.CarbonRevenue', 'ec.CarbonCummCashFlow')):
        for k in (p_, r_, c_):
            cols.append((k, [float(v) for v in x.a(k)], x.u(k), x.pu(k)))
    cols += [('OPEX', opex, x.u('ec.Coam'), x.pu('ec.Coam')), ('ec.TotalRevenue', [float(v) for v in x.a('ec.TotalRevenue')], x.u('ec.TotalRevenue'), x.pu('ec.TotalRevenue')),
             ('ec.TotalCummRevenue', [float(v) for v in x.a('ec.TotalCummRevenue')], x.u('ec.TotalCummRevenue'), x.pu('ec.TotalCummRevenue'))]
    T['REVENUE & CASHFLOW PROFILE'] = TableExp(cy + L, 0, cols, 'one row per construction and operating year')
    if Q['wb.overpressure_percentage']['provided'] and x.has('wb.PumpingPowerProd'):
        pprod, pinj = np.atleast_1d(x.a('wb.PumpingPowerProd')), np.atleast_1d(x.a('wb.PumpingPowerInj'))
        if pprod.size == Pp.size and pinj.size == Pp.size:
            T['RESERVOIR POWER REQUIRED PROFILES'] = TableExp(L, 1, [('production pump power', at(pprod), x.u('wb.PumpingPowerProd')),
                                                                   ('injection pump power', at(pinj), x.u('wb.PumpingPowerInj')), ('total pump power', at(Pp), x.u('wb.PumpingPower'))],
                                                             'one row per simulated year')
    if 'sd' in Q['_classes']:
        T['S-DAC-GT PROFILE'] = TableExp(L, 1, [(k, [float(v) for v in x.a(k)], x.u(k)) for k in (
            'sd.CarbonExtractedAnnually', 'sd.S_DAC_GTCummCarbonExtracted', 'sd.S_DAC_GTAnnualCost', 'sd.S_DAC_GTCummCashFlow', 'sd.CummCostPerTonne')],
            'one row per simulated year')
    if 'ae' in Q['_classes'] and (x.v('ae.AddOnCAPEXTotal') + x.v('ae.AddOnOPEXTotalPerYear')) != 0:
        ep = [float(v) for v in x.a('ec.ElecPrice')]      # held zero-padded for construction years at the hook? (padding happens before the hook)
        hp = [float(v) for v in x.a('ec.HeatPrice')]
        z = [0.0] * cy

        def padded(k):
            a = [float(v) for v in x.a(k)]
            return a if len(a) == cy + L else z + a
        cols = [('electricity price', ep, x.u('ec.ElecPrice'), x.pu('ec.ElecPrice')), ('add-on electricity revenue', padded('ae.AddOnElecRevenue'), x.u('ae.AddOnElecRevenue')),
                ('heat price', hp, x.u('ec.HeatPrice'), x.pu('ec.HeatPrice')), ('add-on heat revenue', padded('ae.AddOnHeatRevenue'), x.u('ae.AddOnHeatRevenue')),
                ('add-on revenue', padded('ae.AddOnRevenue'), x.u('ae.AddOnRevenue')), ('add-on cash flow', padded('ae.AddOnCashFlow'), x.u('ae.AddOnCashFlow')),
                ('add-on cumulative cash flow', padded('ae.AddOnCummCashFlow'), x.u('ae.AddOnCummCashFlow')), ('project cash flow', padded('ae.ProjectCashFlow'), x.u('ae.ProjectCashFlow')),
                ('project cumulative cash flow', padded('ae.ProjectCummCashFlow'), x.u('ae.ProjectCummCashFlow'))]
        T['EXTENDED ECONOMIC PROFILE'] = TableExp(cy + L, 1, cols, 'one row per construction and operating year; every column aligned on the same year')
    return T
