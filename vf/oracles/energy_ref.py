"""
Reference for annual energy figures (property C02): each annual figure is the time integral of the corresponding
power over that year times the utilisation factor. Power is sampled at n points per year on a uniform grid; the
integral is the trapezoid rule over the samples of year i (closing sample = first sample of year i+1 when it
exists). Last-slice rule of the pinned code (held as the definition): if only one sample is available it is
extended by the previous step's increment (when index-1 > 0) or held flat.
Plain Python; no GEOPHIRES imports.
"""


def integrate_year(series, i, n, util):
    s = [float(x) for x in series]
    start = i * n
    sl = s[start:(i + 1) * n + 1]
    if not sl:
        raise ValueError('empty slice')
    if len(sl) == 1:
        nxt = sl[0]
        if start - 1 > 0:
            nxt = sl[0] + (s[start] - s[start - 1])
        sl = [sl[0], nxt]
    m = len(sl) - 1
    h = 365.0 * 24.0 / m
    tot = 0.0
    for j in range(m):
        tot += 0.5 * (sl[j] + sl[j + 1]) * h
    return tot * 1000.0 * util


def annual(series, L, n, util):
    """util: scalar or per-year sequence."""
    out = []
    for i in range(L):
        u = util[i] if hasattr(util, '__len__') else util
        out.append(integrate_year(series, i, n, float(u)))
    return out


def remaining_heat(initial_PJ, heat_kwh_extracted):
    out, c = [], 0.0
    for x in heat_kwh_extracted:
        c += float(x)
        out.append(initial_PJ - c * 3600.0 * 1e3 / 1e15)
    return out


def interp(x, xp, fp):
    """piecewise-linear interpolation with flat extrapolation (documented behaviour of the supply lookup)."""
    if x <= xp[0]:
        return fp[0]
    if x >= xp[-1]:
        return fp[-1]
    lo, hi = 0, len(xp) - 1
    while hi - lo > 1:
        mid = (lo + hi) // 2
        if xp[mid] <= x:
            lo = mid
        else:
            hi = mid
    t = (x - xp[lo]) / (xp[hi] - xp[lo])
    return fp[lo] + t * (fp[hi] - fp[lo])
