"""
Independent, section-aware tokeniser of the GEOPHIRES case report (C09, C10, C06).

    parse(text) -> Report(fields=[Field(section, label, raw_value, number|None, unit, line_no)], tables=[Table(title, header_lines, rows)])

A field line is `<indent><label>:<spaces><value>[ <unit>]` where the value is a number, 'N/A' or free text; the label is
everything before the LAST colon that is followed by white space and the value (labels may themselves contain colons).
Sections are introduced by `***TITLE***` lines or by a three-line starred box `*  TITLE  *`.
Tables are the boxed sections: their header lines are kept verbatim and each data row is split on white space / '|'.
"""
import re
from collections import namedtuple

Field = namedtuple('Field', 'section label raw number unit line_no kind')
Table = namedtuple('Table', 'title header rows line_no')

NUM_RE = re.compile(r'^[-+]?(?:\d[\d,]*\.?\d*(?:[eE][-+]?\d+)?|\.\d+|nan|inf)$', re.I)
SECTION_RE = re.compile(r'^\s*\*\*\*(.+?)\*\*\*\s*$')
BOX_RE = re.compile(r'^\s*\*\s{1,3}(\S.*?\S)\s{1,3}\*\s*$')
STARS_RE = re.compile(r'^\s*\*{5,}\s*$')


def to_number(s):
    t = s.replace(',', '')
    if NUM_RE.match(s):
        try:
            return float(t)
        except ValueError:
            return None
    return None


class Report:
    def __init__(self):
        self.fields, self.tables, self.equals, self.lines = [], [], [], []

    def get(self, section, label):
        return [f for f in self.fields if f.section == section and f.label == label]

    def by_label(self, label):
        return [f for f in self.fields if f.label == label]


def parse(text):
    rep = Report()
    lines = text.splitlines()
    rep.lines = lines
    section = 'HEADER'
    i = 0
    n = len(lines)
    while i < n:
        line = lines[i]
        m = SECTION_RE.match(line)
        if m and not STARS_RE.match(line):
            section = m.group(1).strip()
            i += 1
            continue
        if STARS_RE.match(line) and i + 2 < n and BOX_RE.match(lines[i + 1]) and STARS_RE.match(lines[i + 2]):
            title = BOX_RE.match(lines[i + 1]).group(1).strip()
            section = title
            i += 3
            header, rows, start = [], [], i
            while i < n:
                l = lines[i]
                if STARS_RE.match(l) or SECTION_RE.match(l):
                    break
                toks = [t for t in re.split(r'[\s|]+', l.strip()) if t]
                if toks and all(to_number(t) is not None for t in toks):
                    rows.append((i, toks))
                elif toks and not rows:
                    header.append(l)
                elif toks and rows:
                    break        # text after the data rows: next part of the report
                i += 1
            rep.tables.append(Table(title, header, rows, start))
            continue
        s = line.rstrip()
        if s.strip():
            f = field_of(s, section, i)
            if f is not None:
                rep.fields.append(f)
            elif ' = ' in s:
                k, _, v = s.strip().partition(' = ')
                rep.equals.append((section, k.strip(), v.strip(), i))
        i += 1
    return rep


def field_of(line, section, line_no):
    # last colon followed by spaces and a value token
    best = None
    for m in re.finditer(r':(\s+|$)', line):
        rest = line[m.end():].strip()
        if not rest:
            continue
        first = rest.split()[0]
        if to_number(first) is not None or first == 'N/A':
            best = (m.start(), rest)
    if best is None:
        # "<label>:<number> <unit>" without a blank after the colon
        m = re.match(r'^(\s*\S.*?):([-+]?\d[\d,]*\.?\d*(?:[eE][-+]?\d+)?)(\s+.*)?$', line)
        if m:
            label, val, unit = m.group(1).strip(), m.group(2), (m.group(3) or '').strip()
            return Field(section, label, val, to_number(val), unit, line_no, 'number')
        m = re.match(r'^\s*(\S[^:]*?):\s+(\S.*)$', line)
        if m:
            return Field(section, m.group(1).strip(), m.group(2).strip(), None, '', line_no, 'text')
        return None
    pos, rest = best
    label = line[:pos].strip()
    parts = rest.split(None, 1)
    raw = parts[0]
    unit = parts[1].strip() if len(parts) > 1 else ''
    if raw == 'N/A':
        return Field(section, label, raw, None, unit, line_no, 'na')
    return Field(section, label, raw, to_number(raw), unit, line_no, 'number')
