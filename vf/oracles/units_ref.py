"""
Own table of exact conversion factors for the unit strings of the program's catalogue (C06, C09, C10).
convert(v, u_from, u_to) -> float, raises Unconvertible when the pair is not in the table (different dimension, exchange-rate
currencies, ambiguous spellings). No pint, no GEOPHIRES imports.
"""
import math


class Unconvertible(Exception):
    pass


LB = 0.45359237
YEAR = 365.25 * 86400.0          # Julian year, as the simulator's unit library defines 'year'
BTU = 1055.05585262
# dimension -> {unit: factor to the dimension's base unit}
LIN = {
    'length': {'meter': 1.0, 'm': 1.0, 'centimeter': 0.01, 'kilometer': 1000.0, 'km': 1000.0, 'ft': 0.3048, 'in': 0.0254, 'mile': 1609.344, 'mi': 1609.344},
    'area': {'m**2': 1.0, 'cm**2': 1e-4, 'km**2': 1e6, 'ft**2': 0.3048 ** 2, 'in**2': 0.0254 ** 2, 'mi**2': 1609.344 ** 2},
    'volume': {'m**3': 1.0, 'cm**3': 1e-6, 'km**3': 1e9, 'ft**3': 0.3048 ** 3, 'in**3': 0.0254 ** 3, 'mi**3': 1609.344 ** 3},
    'mass': {'gram': 1e-3, 'kilogram': 1.0, 'tonne': 1000.0, 'ton': 2000 * LB, 'kilotonne': 1e6, 'pound': LB, 'ounce': LB / 16},
    'density': {'kg/m**3': 1.0, 'kg/km**3': 1e-9, 'lbs/ft**3': LB / 0.3048 ** 3, 'oz/in**3': (LB / 16) / 0.0254 ** 3, 'lbs/mi**3': LB / 1609.344 ** 3},
    'gradient': {'degC/km': 1e-3, 'degC/m': 1.0, 'degF/mi': (5.0 / 9.0) / 1609.344},
    'pressure': {'MPa': 1e6, 'kPa': 1e3, 'Pa': 1.0, 'bar': 1e5, 'kbar': 1e8, 'psi': 6894.757293168361},
    'time': {'msec': 1e-3, 'sec': 1.0, 'min': 60.0, 'hr': 3600.0, 'day': 86400.0, 'week': 604800.0, 'yr': YEAR, 'year': YEAR},
    'energy': {'Wh': 3600.0, 'kWh': 3.6e6, 'MWh': 3.6e9, 'GWh': 3.6e12, 'J': 1.0, 'kJ': 1e3},
    'power': {'W': 1.0, 'kW': 1e3, 'MW': 1e6, 'GW': 1e9},
    'power_per_time': {'W/yr': 1.0, 'kW/yr': 1e3, 'MW/yr': 1e6, 'GW/yr': 1e9},
    'energy_per_time': {'kWh/yr': 3.6e6 / YEAR, 'MWh/hr': 3.6e9 / 3600.0, 'MWh/day': 3.6e9 / 86400.0, 'MWh/year': 3.6e9 / YEAR, 'GWh/year': 3.6e12 / YEAR,
                        'GWh': 3.6e12 / YEAR},
    'usd': {'MUSD': 1e6, 'KUSD': 1e3, 'USD': 1.0},
    'usd_per_year': {'MUSD/yr': 1e6, 'KUSD/yr': 1e3, 'USD/yr': 1.0},
    'eur': {'MEUR': 1e6, 'KEUR': 1e3, 'EUR': 1.0},
    'mxn': {'MMXN': 1e6, 'KMXN': 1e3, 'MXN': 1.0},
    'energy_cost': {'USD/kWh': 1.0, 'USD/MWh': 1e-3, 'cents/kWh': 0.01, 'USD/MMBTU': 3.6e6 / (1e6 * BTU)},
    'cost_per_mass': {'USD/tonne': 1e-3, 'USD/mt': 1e-3, 'cents/mt': 1e-5, 'USD/lb': 1.0 / LB, 'cents/lb': 0.01 / LB},
    'fraction': {'%': 0.01, '': 1.0},
}
TEMP = {'degC': (1.0, 273.15), 'degK': (1.0, 0.0), 'K': (1.0, 0.0), 'degF': (5.0 / 9.0, 459.67 * 5.0 / 9.0)}   # K = a*x + b
DIM_OF = {}
for _d, _t in LIN.items():
    for _u in _t:
        DIM_OF.setdefault(_u, []).append(_d)


def norm(u):
    u = (u or '').strip()
    return {'degree_Celsius': 'degC', 'deg C': 'degC', 'MWe': 'MW', 'MWt': 'MW', 'kilometer': 'kilometer'}.get(u, u)


def dims(u):
    u = norm(u)
    if u in TEMP:
        return ['temperature']
    return DIM_OF.get(u, [])


def convert(v, u_from, u_to):
    a, b = norm(u_from), norm(u_to)
    if a == b:
        return float(v)
    if a in TEMP and b in TEMP:
        k = TEMP[a][0] * float(v) + TEMP[a][1]
        return (k - TEMP[b][1]) / TEMP[b][0]
    common = [d for d in dims(a) if d in dims(b)]
    if not common:
        raise Unconvertible(f'{u_from!r} -> {u_to!r}')
    t = LIN[common[0]]
    return float(v) * t[a] / t[b]


def convertible(u_from, u_to):
    try:
        convert(1.0, u_from, u_to)
        return True
    except Unconvertible:
        return False


def same_quantity(q1, q2, rtol=1e-9, atol=0.0):
    """(v1,u1) and (v2,u2) denote the same physical quantity"""
    v1 = convert(q1[0], q1[1], q2[1])
    if math.isnan(v1) or math.isnan(q2[0]):
        return math.isnan(v1) and math.isnan(q2[0])
    if math.isinf(v1) or math.isinf(q2[0]):
        return v1 == q2[0]
    return abs(v1 - q2[0]) <= atol + rtol * max(abs(v1), abs(q2[0]))
