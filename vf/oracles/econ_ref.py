"""
Reference models for the economic properties (C01, C03, C04, C11, C16, C18). Plain Python, no GEOPHIRES imports.

Levelized-cost branch table (DESIGN section 4, C01; the pinned code is the only write-up of which annual costs each
branch includes, so the table below *is* the definition being held):

  FCR       LC = (FCR*(1+ic)*C + O + Xavg) / mean(E)
  Standard  LC = ((1+ic)*C + sum_t (O + X_t) d^t) / sum_t E_t d^t,          t = 0..L-1,  d = 1/(1+r)
  BICYCLE   LC = (NPVcap + NPVoam + NPVfc + NPVit + NPVgrt - NPVitc) / sum_t E_t infl^t d^t, t = 1..L

with LC in cents/kWh (x 2.931 -> USD/MMBTU for heat and cooling).
"""
import math

MMBTU = 2.931

# own copy of the published drilling-cost curve coefficients (c2, c1, c0) in USD, depth in m
WELL_COEFFS = {
    1: (0.258496, 357.967, 738531.58), 2: (0.240624, 646.1621, 503625.06),
    3: (0.248458, 935.8985, 626586.68), 4: (0.217333, 1362.93, 301066.16),
    6: (0.13710, 129.61033, 1205587.57100), 7: (0.00804, 455.60507, 921007.68680),
    8: (0.15340, 120.31700, 1431801.54400), 9: (0.00854, 506.08357, 1057330.39000),
    10: (0.18927, 293.45174, 1326526.31300), 11: (0.00315, 782.69676, 983620.25270),
    12: (0.19950, 296.13011, 1697867.70900), 13: (0.00380, 838.90249, 1181947.04400),
    14: (0.00252, 439.44503, 590611.90110), 15: (0.00719, 455.85233, 753377.73080),
    16: (-0.00240, 752.93946, 524337.65380), 17: (0.00376, 762.52696, 765103.07690),
}


def well_cost_MUSD(corr: int, depth_m: float, per_m_usd: float, adj: float) -> float:
    """cost of one vertical well: chosen curve within its range of validity, per-metre fallback below 500 m
    and for the 'simple' option (5)."""
    if corr == 5 or depth_m < 500.0:
        base = per_m_usd * depth_m * 1e-6
    else:
        c2, c1, c0 = WELL_COEFFS[corr]
        base = (c2 * depth_m ** 2 + c1 * depth_m + c0) * 1e-6
    return adj * base


def ptc_model(L, duration, ptc0, inflation_adjusted, infl):
    return [(ptc0 * (1 + infl) ** i if inflation_adjusted else ptc0) if i < duration else 0.0 for i in range(L)]


def price_model(L, start, end, esc_start, rate, ptc):
    return [min(end, start + max(0, i - esc_start) * rate) + ptc[i] for i in range(L)]


def mean(xs):
    xs = list(xs)
    return math.fsum(xs) / len(xs)


def _div(a, b):
    if b == 0:
        if a == 0 or math.isnan(a):
            return math.nan
        return math.copysign(math.inf, a)
    return a / b


def lc_fcr(fcr, ic, C, O, Xavg, E):
    return _div(fcr * (1 + ic) * C + O + Xavg, mean(E)) * 1e8


def lc_std(r, ic, C, O, X, E):
    L = len(E)
    d = [1.0 / (1 + r) ** t for t in range(L)]
    num = (1 + ic) * C + math.fsum((O + X[t]) * d[t] for t in range(L))
    den = math.fsum(E[t] * d[t] for t in range(L))
    return _div(num, den) * 1e8


def lc_bicycle(p, C, O, X, E, Cfull=None):
    """p: dict FIB,BIR,EIR,RINFL,CTR,GTR,RITC,PTR,ic. X per-year extra costs (list) or None."""
    L = len(E)
    iave = p['FIB'] * p['BIR'] * (1 - p['CTR']) + (1 - p['FIB']) * p['EIR']
    crf = iave / (1 - (1 + iave) ** (-L))
    infl = [(1 + p['RINFL']) ** t for t in range(1, L + 1)]
    d = [1.0 / (1 + iave) ** t for t in range(1, L + 1)]
    ic = p['ic']
    npv_cap = math.fsum((1 + ic) * C * crf * d[t] for t in range(L))
    npv_fc = math.fsum((1 + ic) * C * p['PTR'] * infl[t] * d[t] for t in range(L))
    npv_it = math.fsum(p['CTR'] / (1 - p['CTR']) * ((1 + ic) * C * crf - C / L) * d[t] for t in range(L))
    npv_itc = (1 + ic) * C * p['RITC'] / (1 - p['CTR'])
    Xs = X if X is not None else [0.0] * L
    npv_om = math.fsum((O + Xs[t]) * infl[t] * d[t] for t in range(L))
    npv_grt = p['GTR'] / (1 - p['GTR']) * (npv_cap + npv_om + npv_fc + npv_it - npv_itc)
    den = math.fsum(E[t] * infl[t] * d[t] for t in range(L))
    return _div(npv_cap + npv_om + npv_fc + npv_it + npv_grt - npv_itc, den) * 1e8


def npv(rate, cf, excel_convention=False):
    t0 = 1 if excel_convention else 0
    return math.fsum(c / (1 + rate) ** (t + t0) for t, c in enumerate(cf))


def running_sum(xs):
    out, c = [], 0.0
    for x in xs:
        c += x
        out.append(c)
    return out
