# Real processes, real pylocker, real exit of multiprocessing fork children: force the check-then-act window.
import multiprocessing as mp, os, sys, tempfile, time, uuid
def worker(tag, outfile, ev_checked, ev_first_verified, ev_first_done, first):
    import pylocker
    PL = sys.modules['pylocker.Locker']
    real_isfile, real_rename = os.path.isfile, os.rename
    class P:
        def __getattr__(s, n): return getattr(os.path, n)
        def isfile(s, p):
            r = real_isfile(p)
            if p.endswith('.lock') and not getattr(s, 'done', False):
                s.done = True
                ev_checked[tag].set()           # I have checked: no lock yet
                ev_checked[1 - tag].wait(5)     # wait until the other has checked as well
            return r
    class O:
        path = P(); name = os.name
        def __getattr__(s, n): return getattr(os, n)
        def rename(s, a, b):
            if not first:
                ev_first_verified.wait(5)        # second worker writes its lock after the first one verified its own
            real_rename(a, b)
    PL.os = O()
    from pylocker import Locker
    FL = Locker(filePath=outfile, lockPass=str(uuid.uuid1()), timeout=10, mode='a')
    with FL as r:
        acquired, code, fd = r
        if first:
            ev_first_verified.set()             # verified: the other overwrites the lock now
            time.sleep(0.5)                     # still inside the "critical section"
        else:
            ev_first_done.wait(5)               # hold the lock until the first worker has left its with-block
        if fd is not None:
            fd.write(f'row-of-worker-{tag}\n')
            if os.environ.get('FLUSH'): fd.flush()
    if first:
        ev_first_done.set()
if __name__ == '__main__':
    d = tempfile.mkdtemp(); out = os.path.join(d, 'MC_Result.txt'); open(out, 'w').write('header\n')
    ctx = mp.get_context('fork')
    ev = [ctx.Event(), ctx.Event()]; a = ctx.Event(); b = ctx.Event()
    ps = [ctx.Process(target=worker, args=(0, out, ev, a, b, True)), ctx.Process(target=worker, args=(1, out, ev, a, b, False))]
    [p.start() for p in ps]; [p.join() for p in ps]
    print(open(out).read().splitlines(), [p.exitcode for p in ps])
