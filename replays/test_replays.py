"""
Plain pytest entry point for violation replays: every replays/<id>/<digest>.json written by a check is re-run through
`bin/check <id> --replay <file>` WITHOUT the explorer (one payload, one task). A replay of a genuine violation fails here
until the defect is repaired; on the unchanged tree the directory is empty and the test is skipped.
Run:  /venv/bin/python -m pytest -q /verif/replays/test_replays.py
"""
import glob
import os
import subprocess

import pytest

HERE = os.path.dirname(os.path.abspath(__file__))
FILES = sorted(glob.glob(os.path.join(HERE, 'C*', '*.json')))


@pytest.mark.skipif(not FILES, reason='no replay files present')
@pytest.mark.parametrize('path', FILES or [None])
def test_replay(path):
    pid = os.path.basename(os.path.dirname(path))
    p = subprocess.run([os.path.join(HERE, '..', 'bin', 'check'), pid, '--replay', path], capture_output=True, text=True, timeout=3600)
    assert p.returncode == 0, p.stdout[-2000:] + p.stderr[-2000:]
